#!/venv/bin/python
"""CLI of the deterministic-simulation checks:  check.py Cxx [--tier quick|thorough] [--replay F]"""
import argparse
import importlib
import os
import sys

HERE = os.path.dirname(os.path.abspath(__file__))
sys.path.insert(0, HERE)

from simkit import env  # noqa: E402


def main():
    ap = argparse.ArgumentParser()
    ap.add_argument('prop', nargs='?')
    ap.add_argument('--tier', default=os.environ.get('VERIF_TIER', 'quick'))
    ap.add_argument('--replay')
    ap.add_argument('--setup', action='store_true')
    ap.add_argument('--workers', type=int)
    ap.add_argument('--internal')
    args = ap.parse_args()
    env.ensure_env([os.path.abspath(__file__)] + sys.argv[1:])
    env.import_elfi()
    seed = int(os.environ.get('VERIF_SEED', '0') or 0)
    if args.setup:
        from simkit import setup
        sys.exit(setup.main())
    if not args.prop:
        ap.error('property id required')
    mod = importlib.import_module('scenarios.%s' % args.prop.lower())
    from simkit import runner
    if args.internal:
        sys.exit(mod.internal(args.internal, args.tier, seed))
    if args.replay:
        sys.exit(runner.run_replay(mod, args.replay))
    tier = args.tier if args.tier in ('quick', 'thorough') else 'quick'
    sys.exit(runner.run_check(mod, tier, seed, workers=args.workers))


if __name__ == '__main__':
    main()

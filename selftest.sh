#!/bin/bash
# Full self-test of the machinery (not part of any registered check):
#   1. determinism: check.py --setup (every engine: same tape twice in-process + fresh interpreter
#      under another PYTHONHASHSEED), then every quick check at two worker counts with digests
#      re-checked inside the runs (RECHECK) - exit 3 anywhere means nondeterminism
#   2. sensitivity: every source mutation of selftest/mutants.py on a scratch copy of /repo
#      (outside /repo and /verif, removed afterwards) must make its check exit 1
#   3. seeded changes: every /verif/seeded/<id>/patch.diff applied to a scratch copy must be caught
set -u
cd "$(dirname "$0")"
PY=/venv/bin/python
$PY check.py --setup || exit 1
for w in 3 16; do
  for p in C01 C03 C06 C14 C15; do
    VERIF_WORKERS=$w VERIF_SCALE=0.1 VERIF_OUT=$(mktemp -d) $PY check.py $p --tier quick > /tmp/selftest_$p.$w.log 2>&1
    rc=$?; [ $rc -eq 0 ] || { echo "check $p workers=$w exit $rc"; tail -5 /tmp/selftest_$p.$w.log; }
  done
done
$PY selftest/mutate.py all --scale ${SCALE:-0.3} || echo "some mutants missed"
$PY selftest/seeded.py all || echo "some seeded changes missed"

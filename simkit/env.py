"""Process environment for every check: pinned env vars, numpy alias shim, elfi import.

Nothing here touches /repo.  `VERIF_REPO=<dir>` (used only by the self-test and by mutation
experiments) puts a scratch copy of the repository first on sys.path.
"""
import os
import sys

PINNED = {
    'OMP_NUM_THREADS': '1',
    'OPENBLAS_NUM_THREADS': '1',
    'MKL_NUM_THREADS': '1',
    'NUMEXPR_NUM_THREADS': '1',
    'PYTHONDONTWRITEBYTECODE': '1',
}

SHIM_READS = {'Inf': 0, 'NINF': 0}
REPO = os.environ.get('VERIF_REPO', '/repo')


def ensure_env(argv):
    """Re-exec the interpreter once so that hash seed and BLAS threading are pinned."""
    want = dict(PINNED)
    want['PYTHONHASHSEED'] = os.environ.get('VERIF_HASHSEED', '0')
    need = {k: v for k, v in want.items() if os.environ.get(k) != v}
    if need:
        os.environ.update(need)
        os.environ['VERIF_REEXEC'] = '1'
        sys.stdout.flush()
        os.execv(sys.executable, [sys.executable] + argv)


def install_shim():
    """Restore the two aliases numpy 2 removed (np.Inf, np.NINF), with their old values.

    Done through the module-level ``__getattr__`` so that reads can be counted
    (SHIM_READS); only installed for names that are really missing.
    """
    import numpy
    vals = {'Inf': numpy.inf, 'NINF': -numpy.inf}
    missing = []
    for name in vals:
        try:
            getattr(numpy, name)
        except AttributeError:
            missing.append(name)
    if not missing:
        return []
    orig = numpy.__dict__.get('__getattr__')

    def __getattr__(name):
        if name in missing:
            SHIM_READS[name] += 1
            return vals[name]
        if orig is None:
            raise AttributeError(name)
        return orig(name)

    numpy.__getattr__ = __getattr__
    return missing


_ELFI = None


def import_elfi():
    """Import elfi from REPO (after the shim) and return the module."""
    global _ELFI
    if _ELFI is not None:
        return _ELFI
    import logging
    import warnings
    warnings.filterwarnings('ignore')
    if REPO != '/repo' or True:
        # make sure the working tree under REPO is what gets imported
        if REPO not in sys.path:
            sys.path.insert(0, REPO)
    shim = install_shim()
    import elfi
    here = os.path.realpath(os.path.dirname(os.path.dirname(elfi.__file__)))
    if here != os.path.realpath(REPO):
        raise RuntimeError('elfi imported from %s, expected %s' % (here, REPO))
    logging.getLogger('elfi').setLevel(logging.CRITICAL)
    logging.disable(logging.CRITICAL)
    import elfi.clients.native  # noqa
    elfi.shim_installed = shim
    _ELFI = elfi
    return elfi

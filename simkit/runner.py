"""Run fan-out, violation classification, minimisation, replay files and evidence.

A *scenario module* provides:
    PROPERTY, LEVEL, RULE, COMPONENTS, ASSUMPTIONS
    PLAN = {'quick': [(kind, count), ...], 'thorough': [...]}
    run(tape, kind) -> Outcome
    optional: signature(violation) -> str ; post(ctx) -> list of extra violations
"""
import collections
import concurrent.futures as cf
import faulthandler
import hashlib
import json
import multiprocessing
import os
import signal
import sys
import time
import traceback

from .tape import Tape, derive_seed, shrink

VERIF = os.path.dirname(os.path.dirname(os.path.abspath(__file__)))
# where replays/evidence are written (self-test and mutation runs redirect it)
OUT = os.environ.get('VERIF_OUT', VERIF)


class Violation:
    def __init__(self, clause, sig='', detail=None):
        self.clause = clause          # oracle clause name
        self.sig = sig                # structural predicate (for known-findings lookup)
        self.detail = detail or {}    # json-able observed-vs-expected payload

    @property
    def signature(self):
        return '%s/%s' % (self.clause, self.sig) if self.sig else self.clause

    def to_json(self):
        return {'clause': self.clause, 'signature': self.signature, 'detail': self.detail}


class Outcome:
    def __init__(self):
        self.violations = []
        self.trace = []           # human-readable event lines (bounded)
        self._h = hashlib.sha256()
        self.stats = collections.Counter()    # fault kinds that actually fired
        self.probes = collections.Counter()   # rare-branch probes
        self.steps = 0            # logical simulated time (events)
        self.abstract = None      # hashable/str: abstract trace for distinctness
        self.nontrivial = False
        self.inconclusive = False
        self.sample = None        # json-able description of the case

    def ev(self, line):
        """Append an event to the trace (and to its digest)."""
        self._h.update(line.encode())
        self._h.update(b'\n')
        self.steps += 1
        if len(self.trace) < 400:
            self.trace.append(line)

    def digest(self):
        return self._h.hexdigest()[:24]

    def violate(self, clause, sig='', **detail):
        self.violations.append(Violation(clause, sig, detail))
        self.ev('VIOLATION %s/%s' % (clause, sig))


class HarnessError(Exception):
    pass


class RunHang(BaseException):
    """A single simulated run exceeded its wall-clock guard (an endless loop in the system
    under test, e.g. a proposal sampler that can never satisfy its constraint)."""


def jsonable(x, depth=0):
    import numpy as np
    if depth > 6:
        return repr(x)[:200]
    if isinstance(x, dict):
        return {str(k): jsonable(v, depth + 1) for k, v in list(x.items())[:60]}
    if isinstance(x, (list, tuple, set, frozenset)):
        return [jsonable(v, depth + 1) for v in list(x)[:80]]
    if isinstance(x, np.ndarray):
        if x.size <= 40:
            return jsonable(x.tolist(), depth + 1)
        return {'ndarray': list(x.shape), 'head': jsonable(x.ravel()[:12].tolist(), depth + 1)}
    if isinstance(x, (np.integer,)):
        return int(x)
    if isinstance(x, (np.floating, float)):
        x = float(x)
        if x != x or x in (float('inf'), float('-inf')):
            return repr(x)
        return x
    if isinstance(x, (int, str, bool)) or x is None:
        return x
    return repr(x)[:200]


# ---------------------------------------------------------------------------------------------
# executing one run


def run_seed_for(prop, verif_seed, kind, index):
    return derive_seed('verif', verif_seed, prop, kind, index)


def execute(mod, kind, tape):
    """Run the scenario once; exceptions escaping the scenario are harness errors."""
    out = mod.run(tape, kind)
    if out.abstract is None:
        out.abstract = out.digest()
    return out


def _guard_seconds(mod):
    return 0 if getattr(mod, 'NO_RUN_ALARM', False) else float(
        os.environ.get('VERIF_RUN_TIMEOUT', getattr(mod, 'RUN_TIMEOUT', 240)))


def guarded_execute(mod, kind, tape):
    """execute() under a wall-clock guard (SIGALRM; main thread of the process only)."""
    guard = _guard_seconds(mod)
    if not guard:
        return execute(mod, kind, tape)

    def on_alarm(signum, frame):
        raise RunHang()
    prev = signal.signal(signal.SIGALRM, on_alarm)
    signal.setitimer(signal.ITIMER_REAL, guard)
    try:
        return execute(mod, kind, tape)
    finally:
        signal.setitimer(signal.ITIMER_REAL, 0)
        signal.signal(signal.SIGALRM, prev)


def _worker_chunk(args):
    """Execute a chunk of runs.  Returns (records, aggregate, extra): full records only for runs
    that matter individually (violations, nondeterminism, harness errors, samples, payloads);
    everything else is folded into the aggregate so that millions of runs stay cheap."""
    mod_name, kind, indices, verif_seed, recheck = args
    import importlib
    mod = importlib.import_module(mod_name)
    res = []
    agg = {'n': 0, 'stats': collections.Counter(), 'probes': collections.Counter(), 'steps': 0,
           'abs_nt': set(), 'abs_all': set(), 'inconclusive': 0, 'nontrivial': 0, 'rechecked': 0,
           'first': []}
    keep_payload = getattr(mod, 'PAYLOAD_KEEP', 0)
    guard = _guard_seconds(mod)
    for idx in indices:
        seed = run_seed_for(mod.PROPERTY, verif_seed, kind, idx)
        try:
            tape = Tape(seed, index=idx)
            out = guarded_execute(mod, kind, tape)
            h = int(hashlib.sha256(str(out.abstract).encode()).hexdigest()[:15], 16)
            agg['n'] += 1
            agg['stats'].update(out.stats)
            agg['probes'].update(out.probes)
            agg['steps'] += out.steps
            agg['abs_all'].add(h)
            if out.inconclusive:
                agg['inconclusive'] += 1
            if out.nontrivial:
                agg['nontrivial'] += 1
                if not out.inconclusive:
                    agg['abs_nt'].add(h)
            r = {'kind': kind, 'index': idx, 'seed': seed,
                 'viol': [(v.clause, v.signature) for v in out.violations],
                 'digest': out.digest()}
            keep = False
            if out.violations:
                r['tape'] = list(tape.rec)
                keep = True
            if getattr(out, 'payload', None) is not None and idx < keep_payload:
                r['payload'] = out.payload
                keep = True
            if recheck and derive_seed(seed, 'recheck') % recheck == 0:
                out2 = guarded_execute(mod, kind, Tape(replay=tape.rec, index=idx))
                agg['rechecked'] += 1
                if out2.digest() != out.digest():
                    r['nondet'] = (out.digest(), out2.digest())
                    r['tape'] = list(tape.rec)
                    keep = True
            if idx < 4 or (out.nontrivial and idx < 40):
                r['sample'] = jsonable(out.sample) if out.sample is not None else None
                r['trace_head'] = out.trace[:25]
                keep = True
            if len(agg['first']) < 3:
                agg['first'].append({'kind': kind, 'run_index': idx, 'run_seed': seed})
            if keep:
                res.append(r)
        except RunHang:
            res.append({'kind': kind, 'index': idx, 'seed': seed, 'hang': True,
                        'harness_error': 'RUN-HANG: run %s/%d (seed %d) did not finish within '
                                         '%.0f s\n%s' % (kind, idx, seed, guard,
                                                          traceback.format_exc()[-1500:])})
        except BaseException as e:  # harness error: never a violation
            if isinstance(e, (KeyboardInterrupt, SystemExit)):
                raise
            res.append({'kind': kind, 'index': idx, 'seed': seed,
                        'harness_error': traceback.format_exc()[-3000:]})
    extra = None
    if hasattr(mod, 'worker_extra'):
        extra = mod.worker_extra()
    return res, agg, extra


# ---------------------------------------------------------------------------------------------
# known findings


def load_known():
    p = os.path.join(VERIF, 'known_findings.json')
    if not os.path.exists(p):
        return []
    return json.load(open(p))['findings']


def known_entry(prop, signature):
    for e in load_known():
        if e.get('property') == prop and e.get('status') == 'known' \
                and e.get('signature') == signature:
            return e
    return None


# ---------------------------------------------------------------------------------------------
# the check driver


def _kill_children(ex):
    try:
        for p in list(getattr(ex, '_processes', {}).values()):
            try:
                os.kill(p.pid, signal.SIGKILL)
            except Exception:
                pass
    except Exception:
        pass


def minimise(mod, kind, tape_values, clause_sig, max_runs, index=0):
    def still(v):
        try:
            out = guarded_execute(mod, kind, Tape(replay=v, index=index))
        except RunHang:
            return False
        return any(x.signature == clause_sig for x in out.violations)
    return shrink(tape_values, still, max_runs=max_runs)


def _shrink_job(args):
    mod_name, kind, tape_values, sig, budget, index = args
    import importlib
    mod = importlib.import_module(mod_name)
    if budget <= 0:
        return list(tape_values), 0
    return minimise(mod, kind, tape_values, sig, budget, index)


def write_replay(mod, kind, verif_seed, r, clause_sig, min_tape, out, shrink_runs,
                 decisions=None):
    os.makedirs(os.path.join(OUT, 'replays'), exist_ok=True)
    path = os.path.join(OUT, 'replays', '%s-%s-%016x.json' % (
        mod.PROPERTY, hashlib.sha256(clause_sig.encode()).hexdigest()[:8], r['seed']))
    viol = [v for v in out.violations if v.signature == clause_sig]
    doc = {
        'property': mod.PROPERTY, 'kind': kind, 'signature': clause_sig,
        'verif_seed': verif_seed, 'run_index': r['index'], 'run_seed': r['seed'],
        'hashseed': os.environ.get('PYTHONHASHSEED'),
        'original_tape_len': len(r['tape']), 'shrink_executions': shrink_runs,
        'tape': list(min_tape),
        'decisions': [[str(a), int(b)] for a, b in (decisions or [])][:600],
        'trace_digest': out.digest(),
        'trace': out.trace,
        'violation': viol[0].to_json() if viol else None,
        'sample': jsonable(out.sample),
    }
    with open(path, 'w') as f:
        json.dump(doc, f, indent=1)
    return path


def run_check(mod, tier, verif_seed, workers=None, budget_scale=None):
    t0 = time.time()
    prop = mod.PROPERTY
    plan = list(mod.PLAN[tier])
    scale = float(os.environ.get('VERIF_SCALE', budget_scale or 1.0))
    workers = workers or int(os.environ.get('VERIF_WORKERS', min(16, os.cpu_count() or 1)))
    hard_timeout = float(os.environ.get('VERIF_TIMEOUT', getattr(mod, 'TIMEOUT', {}).get(
        tier, 900 if tier == 'quick' else 5400)))
    faulthandler.enable()
    faulthandler.dump_traceback_later(hard_timeout + 60, exit=True)

    results = []
    extras = []
    total = {'n': 0, 'stats': collections.Counter(), 'probes': collections.Counter(), 'steps': 0,
             'abs_nt': set(), 'abs_all': set(), 'inconclusive': 0, 'nontrivial': 0,
             'rechecked': 0, 'first': []}

    def fold(agg):
        for k in ('n', 'steps', 'inconclusive', 'nontrivial', 'rechecked'):
            total[k] += agg[k]
        total['stats'].update(agg['stats'])
        total['probes'].update(agg['probes'])
        total['abs_nt'] |= agg['abs_nt']
        total['abs_all'] |= agg['abs_all']
        if len(total['first']) < 3:
            total['first'].extend(agg['first'])

    harness_errors = []
    jobs = []
    recheck = getattr(mod, 'RECHECK', 50)
    for kind, count in plan:
        if kind not in getattr(mod, 'FIXED_KINDS', ()):
            count = max(1, int(count * scale))
        csize = max(1, min(getattr(mod, 'CHUNK', 20), count // (workers * 4) or 1))
        idx = list(range(count))
        for i in range(0, count, csize):
            jobs.append((mod.__name__, kind, idx[i:i + csize], verif_seed, recheck))

    ctx = multiprocessing.get_context('fork')
    timed_out = False
    if workers <= 1:
        for j in jobs:
            res, agg, extra = _worker_chunk(j)
            results.extend(res)
            fold(agg)
            extras.append(extra)
    else:
        ex = cf.ProcessPoolExecutor(max_workers=workers, mp_context=ctx)
        futs = [ex.submit(_worker_chunk, j) for j in jobs]
        try:
            for f in cf.as_completed(futs, timeout=hard_timeout):
                try:
                    res, agg, extra = f.result()
                    results.extend(res)
                    fold(agg)
                    extras.append(extra)
                except Exception:
                    harness_errors.append('worker died: ' + traceback.format_exc()[-1500:])
        except cf.TimeoutError:
            timed_out = True
        finally:
            if timed_out:
                _kill_children(ex)
            ex.shutdown(wait=not timed_out, cancel_futures=True)

    results.sort(key=lambda r: (str(r['kind']), r['index']))
    for r in results:
        if 'harness_error' in r:
            harness_errors.append('run %s/%s seed=%s\n%s' % (r['kind'], r['index'], r['seed'],
                                                             r['harness_error']))
    ok = [r for r in results if 'harness_error' not in r]

    # extra, non-run based part (exhaustive enumerations, cross-interpreter comparisons)
    post_viol = []
    post_info = {}
    if hasattr(mod, 'post') and not timed_out:
        try:
            post_viol, post_info = mod.post(tier, verif_seed, ok, extras)
        except Exception:
            harness_errors.append('post: ' + traceback.format_exc()[-3000:])

    nondet = [r for r in ok if 'nondet' in r]

    # ---- classify violations
    by_sig = collections.OrderedDict()
    counts = collections.Counter()
    for r in ok:
        for clause, sig in r['viol']:
            counts[sig] += 1
            by_sig.setdefault(sig, r)
    lines = []
    n_viol = 0
    known_seen = {}
    max_shrink = int(os.environ.get('VERIF_SHRINK', 300))
    todo = []
    for sig, r in by_sig.items():
        ke = known_entry(prop, sig)
        if ke is not None:
            known_seen[sig] = counts[sig]
            lines.append('KNOWN-FINDING: property=%s %s [signature %s, %d runs]' % (
                prop, ke['what_fails'], sig, counts[sig]))
            continue
        todo.append((sig, r))
    # minimise each distinct signature once, in parallel (first few only; the rest are
    # reported with their original tape)
    shrunk = {}
    if todo:
        jobs2 = [(mod.__name__, r['kind'], r['tape'], sig, max_shrink if i < 8 else 0, r['index'])
                 for i, (sig, r) in enumerate(todo)]
        if workers <= 1 or len(jobs2) == 1:
            for j in jobs2:
                shrunk[j[3]] = _shrink_job(j)
        else:
            ex2 = cf.ProcessPoolExecutor(max_workers=min(workers, len(jobs2)), mp_context=ctx)
            try:
                for j, res in zip(jobs2, ex2.map(_shrink_job, jobs2, timeout=1800)):
                    shrunk[j[3]] = res
            except Exception:
                harness_errors.append('minimise: ' + traceback.format_exc()[-3000:])
            finally:
                ex2.shutdown(wait=False, cancel_futures=True)
    for sig, r in todo:
        try:
            min_tape, nruns = shrunk.get(sig, (r['tape'], 0))
            t_ = Tape(replay=min_tape, index=r['index'])
            out = execute(mod, r['kind'], t_)
            if not any(v.signature == sig for v in out.violations):
                min_tape, nruns = r['tape'], 0
                t_ = Tape(replay=min_tape, index=r['index'])
                out = execute(mod, r['kind'], t_)
            path = write_replay(mod, r['kind'], verif_seed, r, sig, min_tape, out, nruns,
                                decisions=list(zip(t_.labels, t_.rec)))
        except Exception:
            harness_errors.append('minimise: ' + traceback.format_exc()[-3000:])
            continue
        n_viol += 1
        lines.append('VIOLATION property=%s replay=%s' % (prop, path))
        lines.append('  signature=%s runs=%d first=%s/%d tape %d->%d' % (
            sig, counts[sig], r['kind'], r['index'], len(r['tape']), len(min_tape)))
    for pv in post_viol:
        sig = pv['signature']
        ke = known_entry(prop, sig)
        if ke is not None:
            known_seen[sig] = known_seen.get(sig, 0) + 1
            lines.append('KNOWN-FINDING: property=%s %s [signature %s]' % (
                prop, ke['what_fails'], sig))
            continue
        os.makedirs(os.path.join(OUT, 'replays'), exist_ok=True)
        path = os.path.join(OUT, 'replays', '%s-post-%s.json' % (
            prop, hashlib.sha256(json.dumps(pv, sort_keys=True, default=str).encode())
            .hexdigest()[:12]))
        with open(path, 'w') as f:
            json.dump(dict(pv, property=prop, kind='post'), f, indent=1, default=str)
        n_viol += 1
        lines.append('VIOLATION property=%s replay=%s' % (prop, path))
        lines.append('  signature=%s (post phase)' % sig)

    # ---- evidence
    wall = time.time() - t0
    stats = total['stats']
    probes = total['probes']
    steps = total['steps']
    n_runs = total['n']
    distinct = len(total['abs_nt'])
    distinct_all = len(total['abs_all'])
    samples = [{'kind': r['kind'], 'run_index': r['index'], 'run_seed': r['seed'],
                'case': r.get('sample'), 'trace_head': r.get('trace_head')}
               for r in ok if r.get('sample') is not None][:5]
    if not samples:
        samples = total['first'][:3]
    cov = {
        'evaluations': n_runs + int(post_info.get('evaluations', 0)),
        'distinct_nontrivial': distinct + int(post_info.get('distinct_nontrivial', 0)),
        'rule': mod.RULE,
        'samples': samples + list(post_info.get('samples', []))[:3],
        'simulated_runs': n_runs,
        'runs_per_hour': int(n_runs / max(wall, 1e-9) * 3600),
        'seeds': {'verif_seed': verif_seed, 'run_seed_rule':
                  'sha256(verif|VERIF_SEED|property|kind|index)[:8]'},
        'sim_steps_total': steps,
        'simulated_time_note': 'logical time: one step per scheduler decision / client API '
                               'event / raw file operation; ELFI has no clock',
        'fault_counts': dict(stats),
        'probe_counts': dict(probes),
        'distinct_abstract_traces_all': distinct_all,
        'inconclusive': total['inconclusive'],
        'nontrivial_runs': total['nontrivial'],
        'rechecked_for_determinism': total['rechecked'],
        'nondeterministic_runs': len(nondet),
        'components': mod.COMPONENTS,
        'known_findings_seen': known_seen,
        'plan': [[str(k), int(c if k in getattr(mod, 'FIXED_KINDS', ()) else max(1, int(c * scale)))]
                 for k, c in plan],
        'workers': workers,
        'shim_reads_parent': dict(__import__('simkit.env', fromlist=['x']).SHIM_READS),
    }
    for k, v in post_info.items():
        if k not in ('evaluations', 'distinct_nontrivial', 'samples'):
            cov[k] = v
    ev = {
        'property_id': prop, 'tier': tier, 'seed': int(verif_seed), 'level': mod.LEVEL,
        'coverage': cov, 'assumptions': list(mod.ASSUMPTIONS), 'wall_s': round(wall, 2),
        'violations': n_viol,
    }
    os.makedirs(os.path.join(OUT, 'evidence'), exist_ok=True)
    with open(os.path.join(OUT, 'evidence', prop + '.json'), 'w') as f:
        json.dump(ev, f, indent=1, default=str)

    # ---- report
    print('%s tier=%s seed=%s runs=%d distinct_nontrivial=%d inconclusive=%d wall=%.1fs '
          'runs/h=%d' % (prop, tier, verif_seed, n_runs, cov['distinct_nontrivial'],
                         cov['inconclusive'], wall, cov['runs_per_hour']))
    print('  faults: %s' % dict(stats))
    print('  probes: %s' % dict(probes))
    for ln in lines:
        print(ln)
    faulthandler.cancel_dump_traceback_later()
    if timed_out:
        print('HARNESS-TIMEOUT after %.0fs' % hard_timeout)
        return 1 if n_viol else 2
    if harness_errors:
        print('HARNESS-ERROR (%d):' % len(harness_errors))
        for h in harness_errors[:3]:
            print(h)
    if nondet:
        r = nondet[0]
        print('HARNESS-NONDETERMINISM run %s/%d seed=%d digests=%s%s' % (
            r['kind'], r['index'], r['seed'], r['nondet'],
            ' (with violations present this is usually the system under test itself, e.g. '
            'un-initialised result rows steering later rounds)' if n_viol else ''))
    # a violation that was found, minimised and written stands on its own replay file and takes
    # precedence; without one, a harness error or nondeterminism means no claim is made
    if n_viol:
        return 1
    if harness_errors:
        return 2
    if nondet:
        return 3
    zero = [p for p in getattr(mod, 'EXPECTED_PROBES', {}).get(tier, []) if not probes.get(p)
            and not stats.get(p)]
    if zero:
        print('  note: probes at zero: %s' % zero)
    return 0


def run_replay(mod, path):
    doc = json.load(open(path))
    if doc.get('kind') == 'post':
        if hasattr(mod, 'replay_post'):
            return mod.replay_post(doc, path)
        print('post-phase finding; re-run the check to reproduce: %s' % doc.get('signature'))
        return 1
    out = execute(mod, doc['kind'], Tape(replay=doc['tape'], index=doc.get('run_index', 0)))
    sig = doc['signature']
    hit = [v for v in out.violations if v.signature == sig]
    for ln in out.trace[-60:]:
        print('   ', ln)
    if hit:
        same = out.digest() == doc['trace_digest']
        print(json.dumps(hit[0].to_json(), indent=1, default=str)[:3000])
        print('trace digest %s (%s recorded %s)' % (out.digest(), 'matches' if same else
                                                     'DIFFERS from', doc['trace_digest']))
        print('VIOLATION property=%s replay=%s' % (doc['property'], path))
        return 1
    other = [v.signature for v in out.violations]
    unknown = [o for o in other if known_entry(doc['property'], o) is None]
    for o in other:
        ke = known_entry(doc['property'], o)
        if ke is not None:
            print('KNOWN-FINDING: property=%s %s [signature %s]' % (doc['property'],
                                                                    ke['what_fails'], o))
    print('replay clean for signature %s (other violations: %s)' % (sig, other))
    if unknown:
        print('VIOLATION property=%s replay=%s' % (doc['property'], path))
    return 1 if unknown else 0

"""Run a real ELFI sampler under the simulated backend, with observation-only monitors."""
import numpy as np

from . import backend as bk
from . import spec as sp
from .env import import_elfi


class StepCap(Exception):
    pass


class _Uuid:
    """Counter based stand-in for the uuid module as used by elfi (uuid4().hex)."""

    def __init__(self):
        self.n = 0

    def uuid4(self):
        self.n += 1
        return self

    @property
    def hex(self):
        import hashlib
        return hashlib.md5(b'%d' % self.n).hexdigest()


def reset_process_state(tape, label='global_rng'):
    """Put every piece of process-global state a run can see into a tape-defined state."""
    elfi = import_elfi()
    import elfi.model.elfi_model as em
    import elfi.utils as eu
    u = _Uuid()
    em.uuid = u
    eu.uuid = u
    import elfi.model.tools as et
    et.subprocess = sp.FAKE_SUBPROCESS       # external operations answer in-process
    del sp.EXT_LOG[:]
    np.random.seed(tape.int(label, 0, 2 ** 20))
    elfi.new_model()
    bk.preload_client_modules(elfi)
    import elfi.clients.native as enative
    elfi.set_client(enative.Client())
    return elfi


def gen_schedule(tape, facades=bk.FACADES, allow_native=True):
    """Swarm-style per-run knobs of the scheduler (simplest values = sequential, FIFO)."""
    fac = tape.choice('facade', [f for f in facades if allow_native or f != 'native'])
    sched = {'facade': fac}
    sched['mpb'] = tape.choice('max_parallel_batches', [1, 2, 3, 4, 5, 7, 9, None])
    sched['workers'] = tape.int('n_workers', 1, 8)
    sched['eager'] = tape.choice('eagerness', [(1, 1), (9, 10), (1, 2), (1, 10), (0, 1)])
    sched['bg_max'] = tape.choice('bg_max', [0, 1, 3])
    sched['stall'] = tape.choice('stall_p', [(0, 1), (1, 10), (1, 3)])
    # an ipyparallel cluster whose engines have not registered yet reports 0 cores; with an
    # explicit max_parallel_batches the core count must not matter
    sched['cores0'] = bool(fac == 'ipp' and sched['mpb'] is not None and
                           tape.chance('no_engine_registered_yet', 1, 4))
    return sched


REFERENCE_SCHED = {'facade': 'native', 'mpb': 1, 'workers': 1, 'eager': (1, 1), 'bg_max': 0,
                   'stall': (0, 1)}


class SamplerRun:
    """One sampler object living on one simulated client; may serve several sample() calls."""

    def __init__(self, tape, out, spec, wl, sched, model=None, pool=None, cap=400,
                 order=None, quiet=False):
        elfi = import_elfi()
        self.elfi = elfi
        self.tape = tape
        self.out = out
        self.spec = spec
        self.wl = wl
        self.sched = sched
        self.cap = cap
        self.quiet = quiet
        fac = sched['facade']
        if fac == 'native':
            self.backend = None
        else:
            self.backend = bk.SimBackend(
                tape, out, n_workers=sched['workers'], pickled=(fac != 'pool_ref'),
                eager=sched['eager'], bg_max=sched['bg_max'], stall=sched['stall'])
        if self.backend is not None and sched.get('cores0'):
            self.backend.reported_cores = 0
            out.stats['client_reports_zero_cores'] += 1
        sp.REC.backend = self.backend
        self.client = bk.make_client(elfi, fac, self.backend)
        elfi.set_client(self.client)
        self.monitor = bk.ClientMonitor(self.client, self.backend, out, fac)
        # every task is tagged with the submission it belongs to (recording ops log it)
        self.cur_req = None
        self.req_info = {}        # req id -> dict(call, bi, held=pool entries at submission)
        self._nreq = 0
        sp.mark_client(self.client, lambda: self.cur_req)
        if wl.get('refuse_submit_at') is not None:
            # injected fault: the client refuses ONE submission (a transient scheduler /
            # connection error); the exception leaves submit(), nothing was registered
            inner_apply = self.client.apply
            n_apply = [0]

            def apply(kallable, *args, **kwargs):
                n_apply[0] += 1
                if n_apply[0] == wl['refuse_submit_at']:
                    out.stats['submit_refused'] += 1
                    out.ev('C apply refused (transient error)')
                    raise sp.SubmitRefused('injected transient submission failure')
                return inner_apply(kallable, *args, **kwargs)
            self.client.apply = apply
        if model is None:
            if wl.get('fail_bi') is not None:
                # injected fault: the simulator fails once, in one particular batch
                import copy as _copy
                spec = _copy.deepcopy(spec)
                simn = [n for n in spec['nodes'] if n['name'] == 'sim'][0]
                simn['cfg'] = dict(simn['cfg'], use_meta=True, fail_bi=wl['fail_bi'])
            model, _ = sp.build_model(elfi, spec, order=order)
        self.model = model
        self.consumed = []        # (call_no, batch_index, batch)
        self.submitted = []       # (call_no, batch_index, override or None)
        self.rounds = []          # SMC round in force when each batch was consumed
        self.call_no = 0
        self.results = []
        self.result_fps = []      # what each returned result said at the moment it was returned
        self.errors = []
        kw = dict(batch_size=wl['batch_size'], seed=wl['seed'],
                  max_parallel_batches=sched['mpb'])
        if pool is not None:
            kw['pool'] = pool
        outs = list(wl.get('output_names') or []) or None
        meth = wl['method']
        if meth == 'rejection' and wl.get('target_form') == 'node':
            s = elfi.Rejection(model[spec['disc']], output_names=outs, **kw)
        elif meth == 'rejection':
            s = elfi.Rejection(model, spec['disc'], output_names=outs, **kw)
        elif meth == 'smc' and wl.get('target_form') == 'node':
            s = elfi.SMC(model[spec['disc']], output_names=outs, **kw)
        elif meth == 'smc':
            s = elfi.SMC(model, spec['disc'], output_names=outs, **kw)
        elif meth == 'adsmc':
            s = elfi.AdaptiveDistanceSMC(model, spec['disc'], output_names=outs, **kw)
        elif meth == 'atsmc':
            from elfi.methods.density_ratio_estimation import DensityRatioEstimation
            s = elfi.AdaptiveThresholdSMC(
                model, spec['disc'], output_names=outs,
                densratio_estimation=DensityRatioEstimation(n=8, epsilon=0.001, max_iter=200,
                                                            abs_tol=0.01, fold=5, optimize=False),
                **kw)
        else:
            raise ValueError(meth)
        self.sampler = s
        self.monitor.limit = s.max_parallel_batches
        self._install(s)

    def _install(self, s):
        out = self.out
        mon = self.monitor
        orig_update = s.update
        orig_submit = s.batches.submit
        orig_cancel = s.batches.cancel_pending

        def update(batch, batch_index):
            # the oracle keeps its OWN copy of what was consumed: the batch object itself is shared
            # with the sampler (and the pool) and must not be trusted to stay as it arrived
            snap = {k: (np.array(v, copy=True) if isinstance(v, np.ndarray) else v)
                    for k, v in batch.items()}
            self.consumed.append((self.call_no, batch_index, snap))
            self.rounds.append(s.state.get('round'))
            own = mon.result_owner.get(id(batch))
            if own is None:
                out.violate('cancelled-result-unused', 'unknown-batch-object', bi=batch_index)
            else:
                if mon.cid_bi.get(own) != batch_index:
                    out.violate('cancelled-result-unused', 'index-mismatch', bi=batch_index,
                                task_bi=mon.cid_bi.get(own))
                if mon.state.get(own) != 'fetched':
                    out.violate('cancelled-result-unused', 'removed-task', bi=batch_index)
            if not self.quiet:
                out.ev('S update bi=%d' % batch_index)
            if len(self.consumed) > self.cap:
                raise StepCap()
            return orig_update(batch, batch_index)

        def submit(batch=None):
            bi = s.batches.next_index
            mon.current_bi = bi
            self.submitted.append((self.call_no, bi, batch))
            if s.batches.num_pending > 0:
                out.probes['speculative_submit'] += 1
            self._nreq += 1
            self.cur_req = 'q%d' % self._nreq
            held = ()
            if s.pool is not None:
                held = tuple(sorted(s.pool.get_batch(bi).keys()))
            self.req_info[self.cur_req] = {'call': self.call_no, 'bi': bi, 'held': held,
                                           'override': sorted(batch) if batch else []}
            try:
                return orig_submit(batch)
            finally:
                mon.current_bi = None
                self.cur_req = None

        def cancel_pending():
            n = s.batches.num_pending
            if n:
                out.probes['cancel_rewind'] += 1
                out.ev('S cancel_pending n=%d' % n)
            return orig_cancel()

        s.update = update
        s.batches.submit = submit
        s.batches.cancel_pending = cancel_pending

    def sample(self, n_samples, **objective):
        """Call sampler.sample; returns the result or None (exception recorded)."""
        self.call_no += 1
        self.out.ev('S sample call %d' % self.call_no)
        try:
            if self.wl.get('bar'):
                # the default of sample(): a progress bar is printed while the run proceeds
                import contextlib
                import io
                with contextlib.redirect_stdout(io.StringIO()):
                    res = self.sampler.sample(n_samples, bar=True, **objective)
            else:
                res = self.sampler.sample(n_samples, bar=False, **objective)
        except StepCap:
            self.out.inconclusive = True
            self.out.ev('S step cap')
            return None
        except sp.InjectedFailure:
            # the exception left sample(); the user calls again. A Rejection run starts over
            # (set_objective resets state and batch index), so what the failed attempt consumed
            # belongs to nothing
            self.out.stats['simulator_failure_then_retry'] += 1
            self.out.ev('S simulator failed; sample() called again')
            self.consumed = [c for c in self.consumed if c[0] != self.call_no]
            self.rounds = self.rounds[:len(self.consumed)]
            self.call_no -= 1
            return self.sample(n_samples, **objective)
        except Exception as e:
            self.errors.append(e)
            self.out.ev('S sample raised %s' % type(e).__name__)
            return None
        self.monitor.check_clean('sample call %d' % self.call_no)
        if self.backend is not None:
            left = self.backend.unfinished
            if left:
                self.out.violate('clean-at-return', 'backend-queue', left=left[:5])
        self.results.append(res)
        self.result_fps.append(sample_fingerprint(res))
        return res

    def check_results_stable(self, clause):
        """A result that was returned stays what it was: continuing the same sampler object
        (a second sample(), a hand-driven continuation) must not reach back into it."""
        for i, (res, fp) in enumerate(zip(self.results, self.result_fps)):
            d = fp_diff(fp, sample_fingerprint(res))
            if d:
                self.out.violate(clause, 'earlier-result-changed', result_no=i, diff=d,
                                 calls=self.call_no)
                return False
        return True

    def drive_manually(self, n_samples, peek_after=(), **objective):
        """The documented manual way: set_objective + iterate() until finished +
        extract_result() - without infer()'s final cancel_pending.  peek_after: iteration counts
        after which an intermediate result is extracted and thrown away (looking at the result
        so far and then carrying on, as the documentation's examples do)."""
        self.call_no += 1
        self.out.ev('S manual drive call %d' % self.call_no)
        s = self.sampler
        try:
            s.set_objective(n_samples, **objective)
            it = 0
            while not s.finished:
                try:
                    s.iterate()
                except sp.SubmitRefused:
                    # the user simply calls iterate() again
                    self.out.stats['submit_refused_then_iterate_again'] += 1
                    continue
                it += 1
                if it in peek_after and not s.finished:
                    try:
                        s.extract_result()
                        self.out.probes['intermediate_result_extracted'] += 1
                    except ValueError:
                        pass        # nothing consumed yet: 'Nothing to extract'
            res = s.extract_result()
        except StepCap:
            self.out.inconclusive = True
            self.out.ev('S step cap')
            return None
        except sp.InjectedFailure:
            self.out.stats['simulator_failure_then_retry'] += 1
            self.out.ev('S simulator failed; manual drive started again')
            self.consumed = [c for c in self.consumed if c[0] != self.call_no]
            self.rounds = self.rounds[:len(self.consumed)]
            self.call_no -= 1
            return self.drive_manually(n_samples, peek_after=peek_after, **objective)
        except Exception as e:
            self.errors.append(e)
            self.out.ev('S manual drive raised %s' % type(e).__name__)
            return None
        self.results.append(res)
        self.result_fps.append(sample_fingerprint(res))
        return res

    def drain(self):
        if self.backend is not None:
            self.backend.drain()

    def consumed_indices(self, call_no=None):
        return [bi for (c, bi, _) in self.consumed if call_no is None or c == call_no]


def check_in_order(out, run, continuing=False):
    """in-order-exactly-once: per sample() call the consumed indices are consecutive."""
    start = 0
    for call in range(1, run.call_no + 1):
        idx = run.consumed_indices(call)
        if not idx:
            continue
        first = idx[0] if (continuing and call > 1) else 0
        if continuing and call > 1:
            first = start
        exp = list(range(first, first + len(idx)))
        if idx != exp:
            out.violate('in-order-exactly-once', '', call=call, got=idx[:30], expected=exp[:30])
        start = first + len(idx)


# ---------------------------------------------------------------------------------------------
# result comparison


def arrays_equal(a, b):
    a = np.asarray(a)
    b = np.asarray(b)
    if a.shape != b.shape or a.dtype != b.dtype:
        return False
    if a.dtype.kind == 'f':
        return bool(np.array_equal(a, b, equal_nan=True))
    return bool(np.array_equal(a, b))


def _norm(x):
    if x is None:
        return None
    if isinstance(x, (list, tuple)):
        return [_norm(e) for e in x]
    return np.array(x)


def sample_fingerprint(res):
    """Everything C04 promises about a Sample / SmcSample, as comparable plain data."""
    def one(s):
        d = {'outputs': {k: np.array(v) for k, v in s.outputs.items()},
             'threshold': np.array(s.meta.get('threshold', np.nan), dtype=float),
             'n_sim': int(s.meta.get('n_sim', -1)), 'n_batches': int(s.meta.get('n_batches', -1))}
        if getattr(s, 'weights', None) is not None:
            d['weights'] = np.array(s.weights)
        if 'cov' in s.meta:
            d['cov'] = np.array(s.meta['cov'])
        if 'adaptive_distance_w' in s.meta:
            d['adw'] = _norm(s.meta['adaptive_distance_w'])
        return d
    fp = one(res)
    if hasattr(res, 'populations'):
        fp['populations'] = [one(p) for p in res.populations]
    return fp


def fp_diff(a, b, path=''):
    """Return the first difference between two fingerprints or None."""
    if isinstance(a, dict) and isinstance(b, dict):
        if sorted(a) != sorted(b):
            return '%s keys %s vs %s' % (path, sorted(a), sorted(b))
        for k in sorted(a):
            d = fp_diff(a[k], b[k], path + '/' + str(k))
            if d:
                return d
        return None
    if isinstance(a, list) and isinstance(b, list):
        if len(a) != len(b):
            return '%s len %d vs %d' % (path, len(a), len(b))
        for i, (x, y) in enumerate(zip(a, b)):
            d = fp_diff(x, y, '%s[%d]' % (path, i))
            if d:
                return d
        return None
    if a is None or b is None:
        return None if a is b else '%s None mismatch' % path
    if isinstance(a, (int, str)) and isinstance(b, (int, str)):
        return None if a == b else '%s %r vs %r' % (path, a, b)
    if not arrays_equal(a, b):
        return '%s arrays differ: %s vs %s' % (path, np.asarray(a).ravel()[:4],
                                               np.asarray(b).ravel()[:4])
    return None


# ---------------------------------------------------------------------------------------------
# workloads


def pilot(elfi, spec, n=80, seed=12345):
    """Discrepancies of a few prior-predictive draws (native client, not recorded)."""
    rec = sp.REC.enabled
    sp.REC.enabled = False
    try:
        import elfi.clients.native as enative
        cur = elfi.client.get_client()
        elfi.set_client(enative.Client())
        m, _ = sp.build_model(elfi, spec, tag='pilot')
        d = m.generate(n, outputs=[spec['disc']], seed=seed)[spec['disc']]
        elfi.set_client(cur)
    finally:
        sp.REC.enabled = rec
    d = np.atleast_2d(np.transpose(d))[-1]
    return np.sort(d[np.isfinite(d)])


def gen_seed(tape):
    """Master seed of a workload; 0 is a legal seed like any other (and falsy)."""
    if tape.chance('seed_zero', 1, 10):
        return 0
    seed = tape.int('seed', 1, 2 ** 20)
    if tape.chance('numpy_typed_seed', 1, 8):
        # np.int32 / np.uint32 seeds are accepted like Python ints (RandomStateLoader)
        seed = tape.choice('seed_type', [np.int32, np.uint32])(seed)
    return seed


def gen_rejection_workload(tape, spec, pil, extra_outputs=True, allow_threshold=True,
                           extras_optional=False, allow_default=False, allow_failure=None):
    bs = tape.int('batch_size', 1, 12)
    n = tape.int('n_samples', 1, 20)
    wl = {'method': 'rejection', 'batch_size': bs, 'seed': gen_seed(tape),
          'n_samples': n}
    outs = list(spec['sums']) if tape.chance('out_sums', 1, 2) else []
    if extra_outputs:
        outs += [x for x in spec.get('extras', [])
                 if not extras_optional or tape.chance('want_extra', 1, 2)]
        if tape.chance('out_sim', 1, 4):
            outs.append('sim')
    if tape.chance('duplicate_output', 1, 6):
        # names given twice, parameters and the discrepancy named explicitly: legal, de-duplicated
        outs.append(tape.choice('dup_output', outs + list(spec['params']) + [spec['disc']]))
    wl['output_names'] = outs
    if tape.chance('target_is_node', 1, 4):
        wl['target_form'] = 'node'      # Rejection(model['d'], ...) instead of (model, 'd', ...)
    if tape.chance('progress_bar', 1, 5):
        wl['bar'] = True
    if (allow_default if allow_failure is None else allow_failure) and \
            tape.chance('simulator_failure', 1, 8):
        if tape.chance('failure_is_refused_submission', 1, 2):
            wl['refuse_submit_at'] = tape.int('refused_submission', 1, 6)
        else:
            wl['fail_bi'] = tape.int('failing_batch', 0, 3)
    modes = ['n_sim', 'quantile'] + (['threshold'] if allow_threshold and len(pil) >= 5 else [])
    mode = tape.choice('objective', modes)
    if allow_default and n <= 2 and tape.chance('default_objective', 1, 10):
        # sample(n) without any objective: documented default quantile 0.01
        wl['objective'] = {}
        wl['default_quantile'] = 0.01
    elif mode == 'n_sim':
        wl['objective'] = {'n_sim': n + tape.int('n_sim_extra', 0, 40)}
    elif mode == 'quantile':
        q = tape.choice('quantile', [1.0, 0.5, 0.3, 0.1, 0.07])
        wl['objective'] = {'quantile': q}
    else:
        qi = tape.int('thr_q', 1, 8)
        t = float(pil[min(len(pil) - 1, (len(pil) * qi) // 10)])
        if tape.chance('accept_all_threshold', 1, 8):
            t = tape.choice('huge_threshold', [float('inf'), 1e30])
        wl['objective'] = {'threshold': t}
    return wl


def gen_smc_workload(tape, spec, pil):
    bs = tape.int('batch_size', 1, 12)
    nparam = len(spec['params'])
    n = tape.int('n_samples', 2 if nparam >= 2 else 1, 16)
    wl = {'method': 'smc', 'batch_size': bs, 'seed': gen_seed(tape),
          'n_samples': n}
    wl['output_names'] = list(spec['sums']) if tape.chance('out_sums', 1, 2) else []
    if spec.get('extras') and tape.chance('out_extras', 1, 2):
        wl['output_names'] += list(spec['extras'])
    if tape.chance('target_is_node', 1, 4):
        wl['target_form'] = 'node'
    if tape.chance('progress_bar', 1, 5):
        wl['bar'] = True
    rounds = tape.int('rounds', 2, 4)
    if tape.chance('smc_quantiles', 1, 2) or len(pil) < 10:
        # 1 (int) and 1.0 are legal quantiles: "no larger than the largest positively weighted
        # discrepancy of the previous population"
        qs = [tape.choice('q', [0.5, 0.3, 0.7, 0.2, 0.9, 1.0, 0.5, 0.3, 1])
              for _ in range(rounds)]
        wl['objective'] = {'quantiles': qs}
    else:
        hi = tape.int('thr_hi', 5, 8)
        ts = []
        for r in range(rounds):
            qi = max(2, hi - r - tape.int('thr_drop', 0, 1))
            hi = qi
            ts.append(float(pil[min(len(pil) - 1, (len(pil) * qi) // 10)]))
        wl['objective'] = {'thresholds': ts}
    return wl

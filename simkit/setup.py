"""`check.py --setup`: environment verification + determinism smoke test of every engine.

Builds nothing (pure Python) and fetches nothing.
"""
import concurrent.futures as cf
import importlib
import json
import multiprocessing
import os
import subprocess
import sys

from .env import REPO, SHIM_READS, import_elfi
from .tape import Tape

PROPS = ['c01', 'c02', 'c03', 'c04', 'c05', 'c06', 'c07', 'c11', 'c12', 'c14', 'c15']
N = {'c11': 2, 'c02': 3, 'c05': 4}


def _digests(args):
    prop, kind, idxs = args
    from . import runner
    mod = importlib.import_module('scenarios.' + prop)
    out = {}
    for i in idxs:
        seed = runner.run_seed_for(mod.PROPERTY, 424242, kind, i)
        t = Tape(seed, index=i)
        o = runner.execute(mod, kind, t)
        o2 = runner.execute(mod, kind, Tape(replay=t.rec, index=i))
        out['%s/%s/%d' % (prop, kind, i)] = [o.digest(), o2.digest(),
                                             sorted(v.signature for v in o.violations)]
    return out


def all_digests(workers=16, scale=None):
    scale = int(os.environ.get('VERIF_DET_SCALE', scale or 1))
    jobs = []
    for p in PROPS:
        mod = importlib.import_module('scenarios.' + p)
        for kind, _ in mod.PLAN['quick']:
            n = N.get(p, 5) * scale
            for a in range(0, n, 5):
                jobs.append((p, kind, list(range(a, min(n, a + 5)))))
    res = {}
    with cf.ProcessPoolExecutor(max_workers=workers,
                                mp_context=multiprocessing.get_context('fork')) as ex:
        for d in ex.map(_digests, jobs):
            res.update(d)
    return res


def main():
    elfi = import_elfi()
    print('python', sys.version.split()[0], 'elfi from', os.path.dirname(elfi.__file__))
    print('repo', REPO, 'shim installed for', elfi.shim_installed, 'reads so far', SHIM_READS)
    import numpy
    import scipy
    import networkx
    print('numpy', numpy.__version__, 'scipy', scipy.__version__, 'networkx', networkx.__version__)
    if os.environ.get('VERIF_INTERNAL_OUT'):
        json.dump(all_digests(int(os.environ.get('VERIF_DET_WORKERS', 8))),
                  open(os.environ['VERIF_INTERNAL_OUT'], 'w'))
        return 0
    mine = all_digests()
    bad = [k for k, (a, b, _) in mine.items() if a != b]
    if bad:
        print('HARNESS-NONDETERMINISM (same process, same tape):', bad[:5])
        return 3
    # fresh interpreter, other hash seed
    import tempfile
    with tempfile.TemporaryDirectory(prefix='verif-setup-') as d:
        outp = os.path.join(d, 'o.json')
        env = dict(os.environ, VERIF_HASHSEED='7', PYTHONHASHSEED='7', VERIF_INTERNAL_OUT=outp,
                   VERIF_DET_WORKERS=os.environ.get('VERIF_DET_WORKERS', '5'))
        here = os.path.dirname(os.path.dirname(os.path.abspath(__file__)))
        p = subprocess.run([sys.executable, os.path.join(here, 'check.py'), '--setup'], env=env,
                           capture_output=True, text=True,
                           timeout=max(900, 120 * int(os.environ.get('VERIF_DET_SCALE', 1))))
        if p.returncode != 0:
            print(p.stdout[-2000:], p.stderr[-2000:])
            return 2
        other = json.load(open(outp))
    diff = [k for k in mine if mine[k][0] != other.get(k, [None])[0]]
    if diff:
        print('HARNESS-NONDETERMINISM (fresh interpreter, PYTHONHASHSEED=7):', diff[:5])
        return 3
    print('determinism smoke test: %d runs x (twice in-process at 16 workers + fresh interpreter '
          'under PYTHONHASHSEED=7 at %s workers) identical' % (
              len(mine), os.environ.get('VERIF_DET_WORKERS', '5')))
    rep = os.environ.get('VERIF_DET_REPORT')
    if rep:
        per = {}
        for k in mine:
            per[k.split('/')[0]] = per.get(k.split('/')[0], 0) + 1
        json.dump({'runs': len(mine), 'per_property': per, 'in_process_repeats': 2,
                   'fresh_interpreter_hashseed': '7', 'worker_counts': [16, int(os.environ.get(
                       'VERIF_DET_WORKERS', '5'))], 'mismatches': 0}, open(rep, 'w'), indent=1)
    return 0

"""SimFS: raw-operation file seam under elfi.store, with kill/restart simulation.

`elfi.store.open` is shadowed by `SimFS.open`, which returns CPython's real buffered I/O
classes over a logging RawIOBase on a *real* file descriptor (so np.memmap(self.fs, ...)
and os.path.exists keep working).  After every raw write/truncate (and at every logical
operation boundary) the complete bytes of the file, read through an independent descriptor,
are stored: that is exactly what survives a SIGKILL - the OS page cache including stores made
through the shared memmap, but not CPython's user-space buffer.
"""
import builtins
import io
import os


class SimRaw(io.RawIOBase):
    def __init__(self, fs, path, mode):
        super().__init__()
        self.fs = fs
        self.name = path
        self.path = path
        self.mode = mode
        flags = {'r': os.O_RDONLY, 'r+': os.O_RDWR, 'w': os.O_WRONLY | os.O_CREAT | os.O_TRUNC,
                 'w+': os.O_RDWR | os.O_CREAT | os.O_TRUNC}[mode]
        existed = os.path.exists(path)
        self._fd = os.open(path, flags, 0o644)
        self._pos = 0
        self.dead = False
        self.generation = fs.generation
        if mode in ('w', 'w+'):
            fs.raw_op('open-trunc' if existed else 'create', self, 0, 0)

    def _is_dead(self):
        return self.dead or self.generation != self.fs.generation

    def readable(self):
        return self.mode in ('r', 'r+', 'w+')

    def writable(self):
        return self.mode in ('r+', 'w', 'w+')

    def seekable(self):
        return True

    def fileno(self):
        return self._fd

    def readinto(self, b):
        d = os.pread(self._fd, len(b), self._pos)
        b[:len(d)] = d
        self._pos += len(d)
        return len(d)

    def write(self, b):
        n = len(b)
        if self._is_dead():
            # after a simulated kill nothing of the old process reaches the disk
            self._pos += n
            return n
        n = os.pwrite(self._fd, bytes(b), self._pos)
        off = self._pos
        self._pos += n
        self.fs.raw_op('write', self, off, n)
        return n

    def seek(self, off, whence=0):
        if whence == 0:
            self._pos = off
        elif whence == 1:
            self._pos += off
        else:
            self._pos = os.fstat(self._fd).st_size + off
        return self._pos

    def tell(self):
        return self._pos

    def truncate(self, size=None):
        if size is None:
            size = self._pos
        if self._is_dead():
            return size
        os.ftruncate(self._fd, size)
        self.fs.raw_op('truncate', self, size, 0)
        return size

    def close(self):
        if not self.closed:
            try:
                os.close(self._fd)
            except OSError:
                pass
        super().close()


class SimFS:
    """All files a simulated process touches through elfi.store."""

    def __init__(self, root, out, buffer_size=8192, track_suffix='.npy'):
        self.root = root
        self.out = out
        self.buffer_size = buffer_size
        self.track_suffix = track_suffix
        self.generation = 0
        self.tracked = []          # paths, in first-open order
        self.snaps = []            # (label, {path: bytes})
        self.marker = None         # set by the driver: (op index, phase)
        self.nraw = 0

    # the replacement of `open` inside elfi.store
    def open(self, path, mode='r', *a, **k):
        if 'b' in mode and str(path).endswith(self.track_suffix):
            path = os.path.abspath(path)
            m = mode.replace('b', '')
            raw = SimRaw(self, path, m)
            if path not in self.tracked:
                self.tracked.append(path)
            if m in ('r+', 'w+'):
                return io.BufferedRandom(raw, buffer_size=self.buffer_size)
            if m == 'w':
                return io.BufferedWriter(raw, buffer_size=self.buffer_size)
            return io.BufferedReader(raw, buffer_size=self.buffer_size)
        return builtins.open(path, mode, *a, **k)

    def raw_op(self, kind, raw, off, n):
        if raw.path not in self.tracked:
            self.tracked.append(raw.path)
        self.nraw += 1
        self.out.ev('F %s %s off=%d n=%d' % (kind, os.path.basename(raw.path), off, n))
        self.out.stats['raw_' + kind.split('-')[0]] += 1
        self.snapshot(kind)

    def read_file(self, path):
        try:
            with builtins.open(path, 'rb') as f:
                return f.read()
        except FileNotFoundError:
            return None

    def snapshot(self, label):
        content = {p: self.read_file(p) for p in self.tracked}
        self.snaps.append((self.marker, label, content))
        return len(self.snaps) - 1

    def kill(self, k):
        """SIGKILL at snapshot k: old handles die, files on disk become snapshot k."""
        self.generation += 1          # every SimRaw of the old process is dead from now on
        marker, label, content = self.snaps[k]
        for p, data in content.items():
            if data is None:
                if os.path.exists(p):
                    os.remove(p)
                continue
            tmp = p + '.restore'
            with builtins.open(tmp, 'wb') as f:
                f.write(data)
            os.replace(tmp, p)        # new inode: stale mmaps of the dead process are detached
        self.out.stats['process_kill'] += 1
        self.out.ev('F KILL at snapshot %d (%s during %s)' % (k, label, marker))
        return content

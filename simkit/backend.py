"""SimBackend: a seeded scheduler under ELFI's real client classes, plus client monitors.

The facades replace only the pool / view / distributed-client object *underneath* the real
`elfi.clients.*.Client` classes; BatchHandler, ParameterInference, the samplers, compiler,
loaders and Executor all run unmodified.
"""
import pickle
import types

import numpy as np

FACADES = ['native', 'pool_ref', 'pool_pickle', 'ipp', 'dask']


class _Task:
    __slots__ = ('tid', 'call', 'blob', 'state', 'result', 'exc', 'stalled', 'forgotten',
                 'worker', 'tag')

    def __init__(self, tid):
        self.tid = tid
        self.call = None
        self.blob = None
        self.state = 'queued'      # queued | done | aborted
        self.result = None
        self.exc = None
        self.stalled = False
        self.forgotten = False     # the client dropped its handle (cancel)
        self.worker = None
        self.tag = None


class SimBackend:
    """Owns every task of a run: when it executes, on which worker, what is_ready answers."""

    def __init__(self, tape, out, n_workers=2, pickled=False, eager=(1, 2), bg_max=1,
                 stall=(0, 1), abort_wins=(3, 4)):
        self.tape = tape
        self.out = out
        self.n_workers = n_workers
        self.pickled = pickled
        self.eager = eager
        self.bg_max = bg_max
        self.stall = stall
        self.abort_wins = abort_wins
        self.tasks = {}
        self.queue = []            # tids not yet executed, submission order
        self.next_tid = 0
        self.last_tid = None
        self.exec_order = []       # tids in execution order
        self.current_task = None   # tid being executed (read by recording operations)
        self.parent_tag = 'parent'
        # one private global-numpy state per simulated worker process
        self.worker_rng = []
        for w in range(n_workers):
            rs = np.random.RandomState(tape.int('worker_rng_seed', 0, 9999))
            self.worker_rng.append(rs.get_state())
        self.exec_hook = None      # called (tid, phase) around executions

    # -- task life cycle -----------------------------------------------------------------

    def submit(self, fn, args, kwargs):
        self._background()
        tid = self.next_tid
        self.next_tid += 1
        t = _Task(tid)
        if self.pickled:
            t.blob = pickle.dumps((fn, args, kwargs), protocol=pickle.HIGHEST_PROTOCOL)
            self.out.stats['pickle_boundary'] += 1
        else:
            t.call = (fn, args, kwargs)
        t.stalled = self.tape.chance('stall', *self.stall)
        if t.stalled:
            self.out.stats['stall'] += 1
        self.tasks[tid] = t
        self.queue.append(tid)
        self.last_tid = tid
        self.out.ev('B submit t%d' % tid)
        return tid

    def _execute(self, tid, why):
        t = self.tasks[tid]
        assert t.state == 'queued'
        self.queue.remove(tid)
        if any(o < tid for o in self.queue if not self.tasks[o].forgotten):
            self.out.stats['out_of_order_completion'] += 1
        if t.forgotten:
            self.out.stats['cancelled_task_ran'] += 1
        w = self.tape.int('worker', 0, self.n_workers - 1)
        t.worker = w
        if t.blob is not None:
            fn, args, kwargs = pickle.loads(t.blob)
            t.blob = None
        else:
            fn, args, kwargs = t.call
            t.call = None
        parent_state = np.random.get_state()
        np.random.set_state(self.worker_rng[w])
        self.out.stats['worker_rng_divergence'] += 1
        prev = self.current_task
        self.current_task = tid
        self.out.ev('B exec t%d w%d (%s)' % (tid, w, why))
        try:
            res = fn(*args, **kwargs)
            if self.pickled:
                res = pickle.loads(pickle.dumps(res, protocol=pickle.HIGHEST_PROTOCOL))
            t.result = res
        except Exception as e:  # delivered at get(), like every real client does
            t.exc = e
            self.out.ev('B exec t%d raised %s' % (tid, type(e).__name__))
        finally:
            self.current_task = prev
            self.worker_rng[w] = np.random.get_state()
            np.random.set_state(parent_state)
        t.state = 'done'
        self.exec_order.append(tid)

    def _background(self):
        """Tape-chosen number of tasks complete 'in the background' before an API call."""
        if not self.queue or self.bg_max <= 0:
            return
        n = self.tape.int('bg_steps', 0, self.bg_max)
        for _ in range(n):
            cands = [q for q in self.queue if not self.tasks[q].stalled]
            if not cands:
                return
            tid = cands[self.tape.int('bg_pick', 0, len(cands) - 1)]
            self._execute(tid, 'background')

    def ready(self, tid):
        self._background()
        t = self.tasks[tid]
        if t.state == 'queued' and not t.stalled and self.tape.chance('eager', *self.eager):
            self._execute(tid, 'polled')
        ans = t.state == 'done'
        if not ans:
            self.out.stats['not_ready'] += 1
        return ans

    def get(self, tid):
        self._background()
        t = self.tasks[tid]
        if t.state == 'aborted':
            raise RuntimeError('sim: result of an aborted task requested (t%d)' % tid)
        if t.state == 'queued':
            self._execute(tid, 'blocking get')
        if t.exc is not None:
            raise t.exc
        res, t.result = t.result, None
        return res

    def cancel(self, tid, mode):
        """mode: 'forget' (multiprocessing: handle dropped, pool still runs the task),
        'abort' (ipyparallel: only if not started), 'cancel' (dask)."""
        t = self.tasks[tid]
        if t.state == 'done':
            self.out.stats['cancelled_after_done'] += 1
            t.result = None
            t.forgotten = True
            return
        t.forgotten = True
        if mode in ('abort', 'cancel') and not self.tape.chance('abort_lost', 1, 4):
            t.state = 'aborted'
            self.queue.remove(tid)
            self.out.stats['cancelled_before_run'] += 1
            self.out.ev('B abort t%d' % tid)
        else:
            # the task stays in the pool's queue and may still run later
            t.stalled = False
            self.out.stats['cancel_left_runnable'] += 1

    def sync(self, fn, args, kwargs):
        self._background()
        if self.pickled:
            fn, args, kwargs = pickle.loads(pickle.dumps((fn, args, kwargs)))
            self.out.stats['pickle_boundary'] += 1
        w = self.tape.int('worker', 0, self.n_workers - 1)
        parent_state = np.random.get_state()
        np.random.set_state(self.worker_rng[w])
        prev = self.current_task
        self.current_task = 'sync%d' % self.next_tid
        self.next_tid += 1
        self.out.ev('B sync w%d' % w)
        try:
            res = fn(*args, **kwargs)
            if self.pickled:
                res = pickle.loads(pickle.dumps(res))
        finally:
            self.current_task = prev
            self.worker_rng[w] = np.random.get_state()
            np.random.set_state(parent_state)
        return res

    def drain(self, label='drain'):
        """Let left-over (cancelled but still queued) tasks run, tape-chosen."""
        for tid in list(self.queue):
            if self.tasks[tid].state == 'queued' and self.tape.chance(label, 1, 2):
                self._execute(tid, 'drain')

    @property
    def unfinished(self):
        return [tid for tid in self.queue if not self.tasks[tid].forgotten]


# ---------------------------------------------------------------------------------------------
# facades


class _Handle:
    def __init__(self, backend, tid):
        self.backend = backend
        self.tid = tid

    def ready(self):
        return self.backend.ready(self.tid)

    done = ready

    def get(self, timeout=None):
        return self.backend.get(self.tid)

    result = get

    def cancel(self):
        self.backend.cancel(self.tid, 'cancel')


class SimPool:
    def __init__(self, backend, processes=None):
        self.backend = backend
        self._processes = processes or backend.n_workers

    def apply_async(self, fn, args=(), kwds=None):
        return _Handle(self.backend, self.backend.submit(fn, tuple(args), dict(kwds or {})))

    def apply(self, fn, args=(), kwds=None):
        return self.backend.sync(fn, tuple(args), dict(kwds or {}))

    def terminate(self):
        pass

    def join(self):
        pass


class _SimView:
    def __init__(self, backend):
        self.backend = backend

    def apply(self, fn, *args, **kwargs):
        return _Handle(self.backend, self.backend.submit(fn, args, kwargs))

    def apply_sync(self, fn, *args, **kwargs):
        return self.backend.sync(fn, args, kwargs)

    def abort(self, jobs=None, block=False):
        for tid in list(self.backend.queue):
            self.backend.cancel(tid, 'abort')

    def __len__(self):
        # engines that have not registered yet: the view is empty although tasks will run
        # (ELFI documents this state: set max_parallel_batches by hand)
        rc = getattr(self.backend, 'reported_cores', None)
        return self.backend.n_workers if rc is None else rc


class SimIpp:
    def __init__(self, backend):
        self.backend = backend

    def load_balanced_view(self):
        return _SimView(self.backend)

    def abort(self, handle, block=False):
        self.backend.cancel(handle.tid, 'abort')


class SimDask:
    def __init__(self, backend):
        self.backend = backend

    def submit(self, fn, *args, **kwargs):
        return _Handle(self.backend, self.backend.submit(fn, args, kwargs))

    def run_on_scheduler(self, fn, *args, **kwargs):
        return self.backend.sync(fn, args, kwargs)

    def shutdown(self):
        pass


def make_client(elfi, facade, backend):
    """Build a *real* ELFI client object whose transport is the simulated backend."""
    import elfi.clients.native as enative
    if facade == 'native':
        return enative.Client()
    if facade in ('pool_ref', 'pool_pickle'):
        import elfi.clients.multiprocessing as emp
        real = emp.multiprocessing
        emp.multiprocessing = types.SimpleNamespace(
            Pool=lambda processes=None, **kw: SimPool(backend, processes))
        try:
            c = emp.Client(num_processes=backend.n_workers)
        finally:
            emp.multiprocessing = real
        return c
    if facade == 'ipp':
        import elfi.clients.ipyparallel as eipp
        return eipp.Client(ipp_client=SimIpp(backend))
    if facade == 'dask':
        import elfi.clients.dask as edask
        real = edask.DaskClient
        edask.DaskClient = lambda: SimDask(backend)
        try:
            c = edask.Client()
        finally:
            edask.DaskClient = real
        return c
    raise ValueError(facade)


_CLIENT_MODULES_LOADED = False


def preload_client_modules(elfi):
    """Import all client modules once; importing them resets the default client."""
    global _CLIENT_MODULES_LOADED
    if _CLIENT_MODULES_LOADED:
        return
    import elfi.clients.multiprocessing  # noqa
    import elfi.clients.ipyparallel  # noqa
    import elfi.clients.dask  # noqa
    import elfi.clients.native as enative
    enative.set_as_default()
    _CLIENT_MODULES_LOADED = True


# ---------------------------------------------------------------------------------------------
# client monitor: observation at the ClientBase boundary, same shape for all four clients


class ClientMonitor:
    """Wraps the methods of a client *instance*; observes only.

    Asserts the C04 backend invariants while the run proceeds:
      fetch-once, no-use-after-cancel, bounded-outstanding (checked by the caller, which
      knows max_parallel_batches), clean-at-return.
    """

    def __init__(self, client, backend, out, facade):
        self.client = client
        self.backend = backend
        self.out = out
        self.facade = facade
        self.state = {}          # cid -> 'pending' | 'fetched' | 'removed'
        self.cid_tid = {}
        self.cid_bi = {}         # cid -> batch index (set by the handler monitor)
        self.result_owner = {}   # id(result dict) -> cid
        self._keep = []          # keep results alive so ids stay unique
        self.current_bi = None
        self.max_outstanding = 0
        self.limit = None        # max_parallel_batches, set by the scenario
        self.n_submit = 0
        self.abstract = []       # (kind, batch index, answer) with task ids erased
        cancel_mode = {'pool_ref': 'forget', 'pool_pickle': 'forget'}.get(facade)

        orig_apply = client.apply
        orig_ready = client.is_ready
        orig_get = client.get_result
        orig_remove = client.remove_task

        def apply(kallable, *args, **kwargs):
            before = backend.last_tid if backend is not None else None
            cid = orig_apply(kallable, *args, **kwargs)
            self.state[cid] = 'pending'
            self.cid_bi[cid] = self.current_bi
            if backend is not None and backend.last_tid != before:
                self.cid_tid[cid] = backend.last_tid
            self.n_submit += 1
            n_out = self.outstanding()
            self.max_outstanding = max(self.max_outstanding, n_out)
            out.ev('C submit c%d bi=%s outstanding=%d' % (cid, self.current_bi, n_out))
            self.abstract.append(('s', self.current_bi))
            if self.limit is not None and n_out > self.limit:
                out.violate('bounded-outstanding', '', outstanding=n_out, limit=self.limit)
            return cid

        def is_ready(cid):
            if self.state.get(cid) != 'pending':
                out.violate('no-use-after-cancel', 'is_ready', cid=cid, state=self.state.get(cid))
            ans = orig_ready(cid)
            out.ev('C is_ready c%d bi=%s -> %s' % (cid, self.cid_bi.get(cid), bool(ans)))
            self.abstract.append(('r', self.cid_bi.get(cid), bool(ans)))
            return ans

        def get_result(cid):
            st = self.state.get(cid)
            if st == 'fetched':
                out.violate('fetch-once', '', cid=cid)
            elif st == 'removed':
                out.violate('no-use-after-cancel', 'get_result', cid=cid)
            self.state[cid] = 'fetched'
            out.ev('C get c%d bi=%s' % (cid, self.cid_bi.get(cid)))
            self.abstract.append(('g', self.cid_bi.get(cid)))
            res = orig_get(cid)
            self.result_owner[id(res)] = cid
            self._keep.append(res)
            return res

        def remove_task(cid):
            st = self.state.get(cid)
            out.ev('C remove c%d bi=%s (was %s)' % (cid, self.cid_bi.get(cid), st))
            self.abstract.append(('x', self.cid_bi.get(cid)))
            if st == 'fetched':
                out.violate('no-use-after-cancel', 'remove-after-fetch', cid=cid)
            self.state[cid] = 'removed'
            out.probes['cancel'] += 1
            if cancel_mode == 'forget' and backend is not None and cid in self.cid_tid:
                # the real client only drops its handle; tell the backend it is orphaned
                backend.cancel(self.cid_tid[cid], 'forget')
            return orig_remove(cid)

        client.apply = apply
        client.is_ready = is_ready
        client.get_result = get_result
        client.remove_task = remove_task

    def outstanding(self):
        return sum(1 for s in self.state.values() if s == 'pending')

    def check_clean(self, where):
        if len(self.client.tasks) != 0:
            self.out.violate('clean-at-return', 'client.tasks', where=where,
                             left=len(self.client.tasks))
        left = [c for c, s in self.state.items() if s == 'pending']
        if left:
            self.out.violate('clean-at-return', 'pending', where=where, left=left[:5])

"""Model specs, recording operations, model builder and independent reference pieces.

A *spec* is plain data (list of node dicts).  From it the harness builds a real ElfiModel
through the public constructors, and evaluates independent oracles (prior density with
scipy.stats, sub-seed reference, dataflow reference) that know nothing about
compiler.py / loader.py / executor.py.
"""
import hashlib

import numpy as np
import scipy.stats as ss

# ---------------------------------------------------------------------------------------------
# digests


def dg(x):
    """Short content digest of a value passed to / returned by an operation."""
    h = hashlib.sha1()
    _dg(h, x)
    return h.hexdigest()[:12]


def _dg(h, x):
    if isinstance(x, np.ndarray):
        h.update(b'A')
        h.update(str(x.dtype).encode())
        h.update(str(x.shape).encode())
        h.update(np.ascontiguousarray(x).tobytes())
    elif isinstance(x, (tuple, list)):
        h.update(b'T%d' % len(x))
        for e in x:
            _dg(h, e)
    elif isinstance(x, dict):
        h.update(b'D%d' % len(x))
        for k in sorted(x, key=str):
            h.update(str(k).encode())
            _dg(h, x[k])
    elif isinstance(x, (float, np.floating)):
        h.update(b'F')
        h.update(np.float64(x).tobytes())
    elif isinstance(x, (bool, np.bool_)):
        h.update(b'B1' if x else b'B0')
    elif isinstance(x, (int, np.integer)):
        h.update(b'I')
        h.update(str(int(x)).encode())
    elif x is None:
        h.update(b'N')
    elif isinstance(x, (str, bytes)):
        h.update(b'S')
        h.update(x.encode() if isinstance(x, str) else x)
    elif isinstance(x, np.random.RandomState):
        h.update(b'R')
        _dg(h, rs_digest(x))
    else:
        h.update(b'O')
        h.update(repr(type(x)).encode())


def rs_digest(rs):
    st = rs.get_state()
    h = hashlib.sha1()
    h.update(st[1].tobytes())
    h.update(str(st[2:]).encode())
    return h.hexdigest()[:12]


def rows_key(arr):
    """One bytes key per row of an array (content addressing of draws)."""
    a = np.ascontiguousarray(arr)
    n = a.shape[0]
    flat = a.reshape(n, -1)
    return [flat[i].tobytes() for i in range(n)]


# ---------------------------------------------------------------------------------------------
# recorder


class Recorder:
    """Process-global log written by recording operations / distributions."""

    def __init__(self):
        self.reset(None)

    def reset(self, backend):
        self.calls = []
        self.backend = backend
        self.enabled = True
        self.req = None       # request id set by Marked callables (C03/C02/C05)

    def task(self):
        b = self.backend
        return b.current_task if b is not None and b.current_task is not None else 'parent'

    def log(self, **kw):
        if self.enabled:
            kw['task'] = self.task()
            kw['req'] = self.req
            kw['seq'] = len(self.calls)
            self.calls.append(kw)


REC = Recorder()
_REGISTRY = {}


class Marked:
    """Picklable wrapper that tags everything a task logs with the request it belongs to."""

    _n = [0]

    def __init__(self, fn, req):
        Marked._n[0] += 1
        self.key = 'marked/%d' % Marked._n[0]
        self.fn = fn
        self.req = req
        _REGISTRY[self.key] = self

    def __reduce__(self):
        return (_lookup, (self.key,))

    def __call__(self, *a, **k):
        prev = REC.req
        REC.req = self.req
        try:
            return self.fn(*a, **k)
        finally:
            REC.req = prev


def mark_client(client, get_req):
    """Wrap client.apply / apply_sync so that every task carries the current request id."""
    inner_apply = client.apply
    inner_sync = client.apply_sync

    def apply(kallable, *args, **kwargs):
        return inner_apply(Marked(kallable, get_req()), *args, **kwargs)

    def apply_sync(kallable, *args, **kwargs):
        return inner_sync(Marked(kallable, get_req()), *args, **kwargs)
    client.apply = apply
    client.apply_sync = apply_sync


def _lookup(key):
    return _REGISTRY[key]


def clear_registry():
    _REGISTRY.clear()


# ---------------------------------------------------------------------------------------------
# recording operation


def _rowify(a, n):
    a = np.asarray(a)
    if a.dtype == object or a.dtype.kind not in 'fiub':
        # content, never object addresses (tobytes() of an object array is a pointer dump)
        a = np.asarray(float(int(dg(a.tolist()), 16) % 100003) / 100003.0)
    a = a.astype(np.float64, copy=False)
    if a.ndim >= 1 and a.shape[0] == n:
        # values only: the memory layout of an argument must not matter to the kernel
        return np.ascontiguousarray(a.reshape(n, -1))
    return np.broadcast_to(a.reshape(1, -1), (n, max(a.size, 1))) if a.size else np.zeros((n, 1))


def _h(A, j, smooth):
    if smooth:
        return A.mean(axis=1) / (1.0 + j)
    m = A.shape[1]
    return np.sin(A * (1.37 + 0.61 * np.arange(m)) + 0.77 * j).sum(axis=1)


def _named_salt(k):
    return 0.5 + (int(hashlib.sha1(k.encode()).hexdigest()[:6], 16) % 1000) / 1000.0


def kernel(cfg, pos, named, n, draws, observed, meta_bi):
    """Pure function behind every recording operation (also usable as an oracle)."""
    smooth = cfg.get('mode') == 'smooth'
    kind = cfg['kind']
    if kind == 'disc' and smooth:
        acc = np.zeros(n)
        for j, a in enumerate(pos):
            A = _rowify(a, n)
            o = _rowify(observed[j], 1) if observed is not None and j < len(observed) \
                else np.zeros((1, 1))
            acc = acc + (A.mean(axis=1) - o.mean()) ** 2
        acc = np.sqrt(acc)
    else:
        acc = np.full(n, float(cfg.get('salt', 0.0)))
        for j, a in enumerate(pos):
            acc = acc + (j + 1.5 if not smooth else 1.0) * _h(_rowify(a, n), j, smooth)
        for k in sorted(named):
            acc = acc + _named_salt(k) * _h(_rowify(named[k], n), 7, smooth)
        if observed is not None:
            for j, o in enumerate(observed):
                acc = acc + (j + 2.25) * _h(_rowify(o, n), 11 + j, smooth)
    if meta_bi is not None:
        acc = acc + 1e-3 * float(meta_bi)
    if draws is not None and draws.shape[1]:
        w = (0.5 if smooth else 1.0) / (1.0 + np.arange(draws.shape[1]))
        acc = acc + draws @ w
    if cfg.get('gain'):
        acc = acc * float(cfg['gain'])
    if kind == 'disc':
        d = np.abs(acc)
        lat = cfg.get('lattice')
        if lat:
            if smooth:
                d = np.floor(d * lat) / lat
            else:
                d = np.floor(((d * 7.3) % 1.0) * lat)
        infp = cfg.get('inf_p', 0.0)
        if infp:
            frac = (np.abs(acc) * 131.7) % 1.0
            d = np.where(frac < infp, np.inf, d)
        elif cfg.get('dtype') == 'int' and lat and not smooth:
            d = d.astype(np.int64)      # count-like discrepancy of integer dtype
        return d
    shape = tuple(cfg.get('shape', ()))
    if not shape:
        res = acc
    else:
        k = int(np.prod(shape))
        cols = acc[:, None] * (1.0 + 0.1 * np.arange(k)) + np.arange(k) * (0.0 if smooth else 1.0)
        res = cols.reshape((n,) + shape)
    dt = cfg.get('dtype')
    if dt == 'int':
        # unique-looking integers (rows stay content-addressed through the other outputs)
        res = np.floor(res * 1e6).astype(np.int64)
    elif dt == 'f4':
        res = res.astype(np.float32)
    lay = cfg.get('layout')
    if lay and res.ndim >= 2:
        # same values in another memory layout (simulators that fill one time step per row
        # and return the transpose do this; several bundled examples return such arrays)
        if lay == 'F':
            res = np.asfortranarray(res)
        else:
            res = np.moveaxis(np.ascontiguousarray(np.moveaxis(res, 0, -1)), -1, 0)
    return res


class InjectedFailure(RuntimeError):
    pass


class SubmitRefused(InjectedFailure):
    """Injected fault: the client refuses one submission with a transient error."""


class RecOp:
    """Picklable recording callable; the copy that runs 'in a worker' still logs here."""

    def __init__(self, key, cfg):
        self.key = key
        self.cfg = dict(cfg)
        self.__name__ = 'recop_' + str(cfg.get('node'))
        _REGISTRY[key] = self

    def __reduce__(self):
        return (_lookup, (self.key,))

    def __call__(self, *args, **kwargs):
        cfg = self.cfg
        kw = dict(kwargs)
        bs = kw.pop('batch_size', None)
        rs = kw.pop('random_state', None)
        meta = kw.pop('meta', None)
        has_obs = 'observed' in kw
        observed = kw.pop('observed', None)
        n = bs
        if n is None:
            for a in args:
                if isinstance(a, np.ndarray) and a.ndim >= 1:
                    n = a.shape[0]
                    break
        if n is None:
            n = 1
        nd = int(cfg.get('ndraws', 0))
        draws = None
        rs_before = rs_after = None
        rs_id = None
        if rs is not None:
            rs_id = id(rs)
            rs_before = rs_digest(rs)
            draws = rs.random_sample((n, nd)) if nd else np.zeros((n, 0))
            rs_after = rs_digest(rs)
        meta_bi = meta.get('batch_index') if isinstance(meta, dict) and cfg.get('use_meta') \
            else None
        if cfg.get('fail_bi') is not None and meta_bi == cfg['fail_bi'] and \
                not getattr(self, 'failed', False):
            # injected fault: the simulator fails ONCE, for one particular batch (a crashed
            # binary, a full disk, Ctrl-C); the exception surfaces where the batch is fetched
            self.failed = True
            raise InjectedFailure('injected simulator failure in batch %d' % meta_bi)
        out = kernel(cfg, args, kw, n, draws, observed, meta_bi)
        REC.log(node=cfg['node'], kind=cfg['kind'], pos=[dg(a) for a in args],
                named={k: dg(v) for k, v in kw.items()},
                bs=bs, has_rs=rs is not None, rs_id=rs_id, rs_before=rs_before,
                rs_after=rs_after,
                meta=dict(meta) if isinstance(meta, dict) else (None if meta is None else 'bad'),
                has_obs=has_obs,
                observed=[dg(o) for o in observed] if isinstance(observed, tuple) else
                (None if observed is None else 'bad'),
                out=dg(out), n=n)
        return out


class RecDist:
    """A scipy-like distribution object (custom distributions are a documented feature)
    that delegates to scipy.stats and logs every rvs call."""

    def __init__(self, key, dist, node):
        self.key = key
        self.dist = dist
        self.node = node
        self.name = dist
        _REGISTRY[key] = self

    def __reduce__(self):
        return (_lookup, (self.key,))

    def rvs(self, *params, size=1, random_state=None):
        d = getattr(ss, self.dist)
        before = rs_digest(random_state) if random_state is not None else None
        out = d.rvs(*params, size=size, random_state=random_state)
        after = rs_digest(random_state) if random_state is not None else None
        REC.log(node=self.node, kind='prior', pos=[dg(p) for p in params], named={},
                bs=size[0] if isinstance(size, tuple) and size else None,
                has_rs=random_state is not None,
                rs_id=id(random_state) if random_state is not None else None,
                rs_before=before, rs_after=after, meta=None, has_obs=False, observed=None,
                out=dg(out), n=size[0] if isinstance(size, tuple) and size else None)
        return out

    def pdf(self, x, *params, **kw):
        return getattr(ss, self.dist).pdf(x, *params, **kw)

    def logpdf(self, x, *params, **kw):
        return getattr(ss, self.dist).logpdf(x, *params, **kw)


# ---------------------------------------------------------------------------------------------
# external operations: elfi.tools.external_operation runs a shell command per row; the simulator
# owns that seam (elfi.model.tools.subprocess) and answers `echo ...` in-process


class FakeSubprocess:
    """Stand-in for the subprocess module as used by elfi.model.tools (run + PIPE)."""
    PIPE = -1

    def __init__(self):
        self.calls = 0

    def run(self, command, **kwargs):
        self.calls += 1
        if not command.startswith('echo '):
            raise RuntimeError('FakeSubprocess only answers echo, got %r' % command[:40])
        import types
        return types.SimpleNamespace(stdout=(command[5:].strip() + '\n').encode(), returncode=0,
                                     args=command)


FAKE_SUBPROCESS = FakeSubprocess()
EXT_LOG = []


def ext_record(*inputs, **kwinputs):
    """prepare_inputs hook of an external operation: what the run was handed."""
    rs = kwinputs.get('random_state')
    EXT_LOG.append({'index_in_batch': kwinputs.get('index_in_batch'),
                    'master': int(rs.get_state()[1][0]) if rs is not None else None,
                    'seed': kwinputs.get('seed'), 'batch_index': kwinputs.get('batch_index')})
    return inputs, kwinputs


def make_noisy_result(ndraws):
    from functools import partial
    return partial(_noisy_result, ndraws)


def _noisy_result(ndraws, stdout, *inputs, **kwinputs):
    """process_result that adds simulator noise drawn from the batch generator."""
    arr = np.fromstring(stdout, sep=' ')
    rs = kwinputs.get('random_state')
    if rs is not None and ndraws:
        arr = np.concatenate([arr, [rs.normal(size=ndraws).sum()]])
    return arr


# ---------------------------------------------------------------------------------------------
# sub-seed reference (independent of elfi.utils.get_sub_seed)


def ref_sub_seed(seed, index, high=2 ** 31):
    """(index+1)-th distinct value of RandomState(seed).randint(high, dtype=uint32)'s stream."""
    if index < 0 or index >= high:
        raise ValueError('unservable')
    rs = np.random.RandomState(seed)
    seen = []
    seen_set = set()
    while len(seen) <= index:
        n = index + 1 - len(seen)
        for v in rs.randint(high, size=n, dtype='uint32'):
            v = int(v)
            if v not in seen_set:
                seen_set.add(v)
                seen.append(v)
    return seen[index]


# ---------------------------------------------------------------------------------------------
# inference-model specs (priors -> simulator -> summaries -> discrepancy)

PRIOR_FAMILIES = ['uniform', 'norm', 'expon', 'beta']


def gen_prior(tape, name, earlier, positive=(), latent=(), far=False):
    fam = tape.choice('prior_family', PRIOR_FAMILIES)
    # a latent (non-parameter) node is only ever the location of a normal prior: ModelPrior
    # evaluates the density given ONE latent draw of its own, and a child whose support moved
    # with the latent could have density 0 on the whole population (SMC then never finds a
    # proposal inside the prior's support and does not terminate - a property of such a model,
    # not of the code under test)
    earlier = list(earlier) + (list(latent) if fam == 'norm' else [])
    hier = bool(earlier) and fam in ('uniform', 'norm', 'expon') and tape.chance('hier', 1, 3)
    if fam == 'uniform':
        a = tape.int('u_lo', -2, 2) * 0.5
        w = tape.int('u_w', 1, 6) * 0.5
        args = [a, w]
    elif fam == 'norm':
        args = [tape.int('n_m', -2, 2) * 0.5, tape.int('n_s', 1, 4) * 0.5]
    elif fam == 'expon':
        args = [tape.int('e_loc', -1, 1) * 0.5, tape.int('e_s', 1, 4) * 0.5]
    else:
        args = [tape.int('b_a', 1, 4) * 0.5 + 0.5, tape.int('b_b', 1, 4) * 0.5 + 0.5]
    if hier:
        args[0] = tape.choice('hier_parent', earlier)
    elif far and fam != 'beta' and tape.chance('far_from_zero', 1, 8):
        # a parameter living far from zero relative to its spread (a year, a temperature in
        # Kelvin, a count in the tens of thousands): legal, and |mean|/sd ~ 1e4 is where
        # one-pass moment formulas lose their digits while the stated formulas do not
        args[0] = args[0] + tape.choice('far_offset', [1e4, -1e4, 3e4])
    elif positive and fam in ('uniform', 'norm', 'expon') and tape.chance('hier_scale', 1, 3):
        # the SCALE argument is a parent whose support is positive (e.g. t2 ~ U(a, t1)): outside
        # the parent's support scipy's child density is nan, not -inf
        args[1] = tape.choice('hier_scale_parent', positive)
    return {'name': name, 'kind': 'prior', 'dist': fam, 'args': args,
            'rec': tape.chance('recdist', 1, 2)}


def gen_inference_spec(tape, disc_kinds=('disc', 'dist'), max_priors=3, extra_shapes=False,
                       ties=True, smooth=None, all_rec=False, latent=False, far=False, ext=False):
    """Priors -> recording simulator -> summaries -> discrepancy (+ optional extra outputs).

    latent=True: sometimes a stochastic non-parameter node (elfi.RandomVariable) sits above a
    prior (a latent hyper-parameter); it is never overridden when the joint prior density is
    evaluated, so it runs inside ModelPrior's own nets."""
    nodes = []
    n_pri = tape.int('n_priors', 1, max_priors)
    pnames = []
    positive = []
    lat = []
    if latent and tape.chance('latent', 1, 3):
        nodes.append({'name': 'z0', 'kind': 'prior', 'latent': True, 'dist': 'norm',
                      'args': [tape.int('z_m', -2, 2) * 0.25, tape.int('z_s', 1, 3) * 0.25],
                      'rec': all_rec or tape.chance('recdist', 1, 2)})
        lat = ['z0']
    for i in range(n_pri):
        p = gen_prior(tape, 't%d' % i, pnames, positive, latent=lat, far=far)
        if all_rec:
            p['rec'] = True
        nodes.append(p)
        pnames.append(p['name'])
        a = p['args']
        if all(not isinstance(x, str) for x in a) and (
                (p['dist'] == 'uniform' and a[0] > 0) or (p['dist'] == 'expon' and a[0] > 0)
                or p['dist'] == 'beta'):
            # strictly positive support with a margin (uniform/expon start above 0; beta in (0,1))
            positive.append(p['name'])
    if lat and not any('z0' in p['args'] for p in nodes[1:]):
        # make the latent node count: the first normal prior with a numeric location sits on it
        for p in nodes[1:]:
            if p['dist'] == 'norm' and not isinstance(p['args'][0], str):
                p['args'][0] = 'z0'
                break
    if smooth is None:
        smooth = tape.chance('smooth', 1, 2)
    mode = 'smooth' if smooth else 'mix'
    sim_k = tape.choice('sim_shape', [(), (2,), (3,)])
    sim_parents = list(pnames)
    if tape.chance('sim_const', 1, 3):
        sim_parents.append(float(tape.int('sim_const_v', 1, 5)) * 0.25)
    sim_cfg = {'node': 'sim', 'kind': 'sim', 'ndraws': tape.int('ndraws', 1, 3),
               'shape': sim_k, 'mode': mode, 'salt': 0.25}
    if tape.chance('sim_uses_meta', 1, 4):
        sim_cfg['use_meta'] = True       # its value then depends on meta['batch_index']
    n_obs = 1
    obs = np.asarray(kernel(dict(sim_cfg, node='sim'),
                            [np.full(n_obs, 0.3 + 0.2 * j) for j in range(len(sim_parents))],
                            {}, n_obs, np.full((n_obs, sim_cfg['ndraws']), 0.5), None, None))
    nodes.append({'name': 'sim', 'kind': 'sim', 'parents': sim_parents, 'cfg': sim_cfg,
                  'observed': obs})
    n_sum = tape.int('n_sums', 1, 3)
    snames = []
    for j in range(n_sum):
        shp = tape.choice('sum_shape', [(), (), (2,)])
        nodes.append({'name': 's%d' % j, 'kind': 'sum', 'parents': ['sim'],
                      'cfg': {'node': 's%d' % j, 'kind': 'sum', 'shape': shp, 'mode': mode,
                              'salt': 0.1 * (j + 1)}})
        snames.append('s%d' % j)
    dk = tape.choice('disc_kind', list(disc_kinds))
    # the discrepancy may list its summaries in another order than they were created in
    dpar = tape.shuffle('disc_parent_order', snames) if tape.chance('disc_parents_permuted', 1, 2) \
        else list(snames)
    if dk == 'disc':
        cfg = {'node': 'd', 'kind': 'disc', 'mode': mode, 'salt': 0.05}
        if ties and tape.chance('lattice', 1, 2):
            cfg['lattice'] = tape.choice('lattice_n', [3, 5, 10]) if not smooth else \
                tape.choice('lattice_s', [2, 4, 10])
        if ties and tape.chance('inf', 1, 3):
            cfg['inf_p'] = tape.choice('inf_p', [0.1, 0.3, 0.6])
        elif ties and cfg.get('lattice') and not smooth and tape.chance('int_discrepancy', 1, 3):
            cfg['dtype'] = 'int'
        nodes.append({'name': 'd', 'kind': 'disc', 'parents': dpar, 'cfg': cfg})
    elif dk == 'dist':
        width = sum(int(np.prod(n['cfg']['shape'])) if n['cfg']['shape'] else 1
                    for n in nodes if n['kind'] == 'sum')
        metric = tape.choice('metric', ['euclidean', 'cityblock', 'chebyshev', 'minkowski',
                                        'seuclidean', 'mahalanobis', 'sqeuclidean', 'canberra',
                                        'braycurtis'])
        kw = {}
        if metric == 'minkowski':
            kw['p'] = tape.choice('mink_p', [1, 2, 3, 1.5])
        if metric in ('euclidean', 'cityblock', 'chebyshev', 'minkowski', 'sqeuclidean',
                      'canberra') and tape.chance('metric_weights', 1, 3):
            # per-column weights are one of the keyword arguments Distance hands to cdist
            kw['w'] = np.array([0.25 + 0.5 * ((i * 5) % 4) for i in range(width)])
        elif metric == 'seuclidean':
            kw['V'] = np.array([0.5 + 0.25 * ((i * 3) % 5) for i in range(width)])
        elif metric == 'mahalanobis':
            A = np.eye(width) + 0.1 * np.arange(width * width).reshape(width, width) / max(
                1, width * width)
            kw['VI'] = A @ A.T
        nodes.append({'name': 'd', 'kind': 'dist', 'parents': dpar, 'metric': metric, 'kw': kw,
                      # the metric may be handed over as a callable dist(XA, XB) instead of a name
                      'callable': tape.chance('metric_as_callable', 1, 6)})
    elif dk == 'adist':
        nodes.append({'name': 'd', 'kind': 'adist', 'parents': dpar})
    extras = []
    if extra_shapes:
        for j in range(tape.int('n_extra', 0, 2)):
            shp = tape.choice('extra_shape', [(), (2,), (2, 2)])
            par = tape.choice('extra_parent', ['sim'] + snames)
            nodes.append({'name': 'x%d' % j, 'kind': 'op', 'parents': [par],
                          'cfg': {'node': 'x%d' % j, 'kind': 'op', 'shape': shp, 'mode': mode,
                                  'salt': 0.7 + j,
                                  'dtype': tape.choice('extra_dtype', [None, None, 'int', 'f4'])}})
            extras.append('x%d' % j)
    if ext and tape.chance('external_operation', 1, 5):
        # an operation that runs an external command per row (vectorize + external_operation,
        # the documented way to wrap a binary): its output carries the {seed} ELFI derives for
        # the run from the batch generator, with or without run metadata
        nodes.append({'name': 'e0', 'kind': 'ext', 'parents': [pnames[0]],
                      'uses_meta': tape.chance('ext_uses_meta', 2, 3)})
        extras.append('e0')
    for nd in nodes:
        if nd.get('cfg', {}).get('shape') and tape.chance('layout', 1, 3):
            nd['cfg']['layout'] = tape.choice('layout_kind', ['F', 'T'])
    return {'nodes': nodes, 'params': pnames, 'sums': snames, 'disc': 'd', 'extras': extras,
            'mode': mode}


def describe_spec(spec):
    out = []
    for n in spec['nodes']:
        d = {'name': n['name'], 'kind': n['kind']}
        if n['kind'] == 'prior':
            d['dist'] = n['dist']
            d['args'] = n['args']
            d['rec'] = n.get('rec')
            if n.get('latent'):
                d['latent'] = True
        else:
            d['parents'] = [p if isinstance(p, str) else float(p) for p in n.get('parents', [])]
            if 'cfg' in n:
                d['cfg'] = {k: v for k, v in n['cfg'].items() if k not in ('node', 'kind')}
            if 'metric' in n:
                d['metric'] = n['metric']
                d['kw'] = sorted(n['kw'])
            if n['kind'] == 'ext':
                d['uses_meta'] = bool(n.get('uses_meta'))
        out.append(d)
    return out


_build_counter = [0]


def build_model(elfi, spec, order=None, tag=None):
    """Build a real ElfiModel from the spec through the public constructors."""
    _build_counter[0] += 1
    tag = tag or 'm%d' % _build_counter[0]
    m = elfi.ElfiModel(name=tag)
    nodes = spec['nodes'] if order is None else order
    refs = {}
    for n in nodes:
        name = n['name']
        kind = n['kind']
        if kind == 'prior':
            args = [refs[a] if isinstance(a, str) else a for a in n['args']]
            dist = RecDist('%s/%s' % (tag, name), n['dist'], name) if n.get('rec') else n['dist']
            ctor = elfi.RandomVariable if n.get('latent') else elfi.Prior
            refs[name] = ctor(dist, *args, model=m, name=name)
            continue
        if kind == 'const':
            refs[name] = elfi.Constant(n['value'], model=m, name=name)
            continue
        parents = [refs[p] if isinstance(p, str) else p for p in n.get('parents', [])]
        if kind == 'dist':
            if n.get('callable'):
                from functools import partial
                from scipy.spatial.distance import cdist
                refs[name] = elfi.Distance(partial(cdist, metric=n['metric'], **n['kw']),
                                           *parents, model=m, name=name)
            else:
                refs[name] = elfi.Distance(n['metric'], *parents, model=m, name=name, **n['kw'])
            continue
        if kind == 'adist':
            refs[name] = elfi.AdaptiveDistance(*parents, model=m, name=name)
            continue
        if kind == 'ext':
            op = elfi.tools.vectorize(elfi.tools.external_operation('echo {0} {seed}'))
            # a (second) Simulator: stochastic nodes are the ones that are handed the batch
            # generator, from which ELFI derives the {seed} of the command line
            refs[name] = elfi.Simulator(op, *parents, model=m, name=name)
            if n.get('uses_meta'):
                refs[name].uses_meta = True
            continue
        op = RecOp('%s/%s' % (tag, name), n['cfg'])
        if kind == 'sim':
            refs[name] = elfi.Simulator(op, *parents, model=m, name=name,
                                        observed=n.get('observed'))
        elif kind == 'sum':
            refs[name] = elfi.Summary(op, *parents, model=m, name=name,
                                      observed=n.get('observed'))
        elif kind == 'disc':
            refs[name] = elfi.Discrepancy(op, *parents, model=m, name=name)
        elif kind == 'op':
            refs[name] = elfi.Operation(op, *parents, model=m, name=name)
        else:
            raise ValueError(kind)
        if n['cfg'].get('use_meta'):
            refs[name].uses_meta = True
    return m, refs


# ---------------------------------------------------------------------------------------------
# independent prior density (scipy only, from the spec)


def prior_logpdf(spec, theta):
    """Sum of conditional log densities of the spec's priors at rows of theta (n, dim);
    columns ordered like sorted parameter names (ELFI's parameter_names order)."""
    names = sorted(spec['params'])
    col = {nm: theta[:, i] for i, nm in enumerate(names)}
    total = np.zeros(len(theta))
    for n in spec['nodes']:
        if n['kind'] != 'prior':
            continue
        args = [col[a] if isinstance(a, str) else a for a in n['args']]
        total = total + getattr(ss, n['dist']).logpdf(col[n['name']], *args)
    return total


# ---------------------------------------------------------------------------------------------
# random acyclic programs (C03 / C02)

STOCHASTIC_KINDS = ('prior', 'sim')
OBSERVABLE_KINDS = ('sim', 'sum')


def gen_dag_spec(tape, max_nodes=9, allow_stochastic_observed=True):
    """Random acyclic spec over Constant/Operation/Prior/Simulator/Summary/Discrepancy with
    fan-in/out, positional + named edges, shared constants, partial observations, uses_meta."""
    n_nodes = tape.int('n_nodes', 3, max_nodes)
    nodes = []
    names = []
    shapes = {}

    def pick_parents(kind, lo, hi, scalar_only=False, exclude_disc=True):
        cands = [n['name'] for n in nodes
                 if not (exclude_disc and n['kind'] == 'disc')
                 and (not scalar_only or shapes[n['name']] == ())]
        k = tape.int('n_parents', lo, hi)
        out = []
        for _ in range(k):
            free = [c for c in cands if c not in out]
            if free and tape.chance('node_parent', 3, 4):
                out.append(tape.choice('parent', free))
            elif tape.chance('special_const', 1, 6):
                # "constants as given": falsy values and None are values like any other
                out.append(tape.choice('special_value', [0.0, 0, False, None]))
            else:
                out.append(float(tape.int('inline_const', 1, 9)) * 0.5)
        return out

    for i in range(n_nodes):
        have = {k: [n['name'] for n in nodes if n['kind'] == k]
                for k in ('const', 'prior', 'op', 'sim', 'sum', 'disc')}
        kinds = ['prior', 'op', 'sim', 'const']
        if have['sim'] or have['op'] or have['prior']:
            kinds += ['sum', 'sum']
        if have['sum'] or have['sim']:
            kinds += ['disc']
        if i == 0:
            kinds = ['prior', 'const', 'sim']
        kind = tape.choice('node_kind', kinds)
        name = '%s%d' % ({'const': 'c', 'prior': 'p', 'op': 'o', 'sim': 'y', 'sum': 's',
                          'disc': 'd'}[kind], i)
        # upper-case and digit-leading names sort BEFORE the internal '_' nodes, lower-case after
        style = tape.choice('name_style', ['lower', 'lower', 'upper', 'digit'])
        if style == 'upper':
            name = name.upper()
        elif style == 'digit':
            name = '%d%s' % (i, name[0])
        node = {'name': name, 'kind': kind}
        if kind == 'const':
            node['value'] = float(tape.int('const_value', 1, 12)) * 0.25
            shapes[name] = ()
        elif kind == 'prior':
            node['dist'] = tape.choice('dist', ['uniform', 'norm'])
            scal = [n['name'] for n in nodes if n['kind'] in ('const', 'prior')]
            loc = tape.choice('loc_parent', scal) if scal and tape.chance('hier', 1, 2) else \
                float(tape.int('loc', -2, 2)) * 0.5
            node['args'] = [loc, float(tape.int('scale', 1, 4)) * 0.5]
            node['rec'] = True
            shapes[name] = ()
        else:
            lo = 1 if kind in ('sum', 'disc') else 0
            # a discrepancy may itself feed an operation, a summary or another discrepancy
            par = pick_parents(kind, lo, 3, exclude_disc=not tape.chance('disc_as_parent', 1, 4))
            if kind in ('sum', 'disc') and not any(isinstance(p, str) for p in par):
                cands = [n['name'] for n in nodes if n['kind'] != 'disc']
                par[0] = tape.choice('forced_parent', cands)
            if kind == 'disc':
                # prefer summaries / simulators as parents of a discrepancy
                pref = have['sum'] + have['sim']
                if pref and tape.chance('disc_pref', 3, 4) and \
                        not any(isinstance(p, str) and p in have['disc'] for p in par):
                    par = [p for p in par if isinstance(p, str) and p in pref] or \
                        [tape.choice('disc_parent', pref)]
                par = [p for p in par if isinstance(p, str)]
            shape = tape.choice('shape', [(), (), (2,)]) if kind != 'disc' else ()
            cfg = {'node': name, 'kind': kind, 'shape': shape, 'mode': 'mix',
                   'salt': 0.03 * (i + 1), 'ndraws': tape.int('ndraws', 1, 2) if kind == 'sim'
                   else 0}
            if kind in ('op', 'sim', 'sum') and tape.chance('uses_meta', 1, 5):
                cfg['use_meta'] = True
            elif kind in ('op', 'sim', 'sum') and tape.chance('meta_withdrawn', 1, 8):
                # uses_meta explicitly set to False (directly, or declared and withdrawn): the
                # node does NOT declare run metadata
                cfg['meta_false'] = tape.choice('withdraw_how', ['false', 'true_then_false'])
            node['parents'] = par
            node['cfg'] = cfg
            if kind in ('op', 'sim') and len(par) >= 2 and all(isinstance(p, str) for p in par) \
                    and tape.chance('explicit_slots', 1, 5):
                # the node is created without parents; each positional parent is then attached
                # with model.add_edge(parent, child, <slot>) in a tape-chosen order
                node['slot_order'] = tape.shuffle('slot_order', list(range(len(par))))
            # named edges (not for discrepancies: their observed twin is args_to_tuple)
            named = {}
            if kind in ('op', 'sim', 'sum') and tape.chance('named_edge', 1, 3):
                free = [n['name'] for n in nodes if n['name'] not in par and
                        (n['kind'] != 'disc' or tape.chance('disc_named_parent', 1, 3))]
                if free:
                    named[tape.choice('param_name', ['alpha', 'beta', 'w'])] = \
                        tape.choice('named_parent', free)
            node['named'] = named
            if kind in OBSERVABLE_KINDS:
                give = tape.chance('observed_given', 6, 7) if kind == 'sim' else \
                    tape.chance('observed_given', 1, 4)
                if give:
                    k = int(np.prod(shape)) if shape else 1
                    node['observed'] = (np.arange(k, dtype=float).reshape((1,) + tuple(shape))
                                        * 0.5 + 0.1 * (i + 1))
            shapes[name] = tuple(shape)
        nodes.append(node)
        names.append(name)
    spec = {'nodes': nodes}
    # precondition: a simulator whose twin is needed by some discrepancy has an observation
    idx = spec_index(spec)
    for n in nodes:
        if n['kind'] == 'disc':
            inst = twin_closure(idx, ('tw', n['name']))
            for (k, x) in inst:
                if k == 'obs' and idx[x]['kind'] == 'sim' and idx[x].get('observed') is None:
                    shape = idx[x]['cfg']['shape']
                    kk = int(np.prod(shape)) if shape else 1
                    idx[x]['observed'] = np.arange(kk, dtype=float).reshape(
                        (1,) + tuple(shape)) * 0.5 + 0.7
    return spec


def spec_index(spec):
    return {n['name']: n for n in spec['nodes']}


def all_parents(node):
    """(param, parent name) for node parents; inline constants are ('c', value)."""
    out = []
    if node['kind'] == 'prior':
        for i, a in enumerate(node['args']):
            out.append((i, a))
    elif node['kind'] != 'const':
        for i, p in enumerate(node.get('parents', [])):
            out.append((i, p))
        for k, p in node.get('named', {}).items():
            out.append((k, p))
    return out


def twin_or_self(idx, p):
    return ('obs', p) if idx[p]['kind'] in OBSERVABLE_KINDS else ('sim', p)


def twin_closure(idx, inst, supplied=()):
    """All value instances the given instance depends on (reference semantics of C03)."""
    seen = set()
    stack = [inst]
    while stack:
        cur = stack.pop()
        if cur in seen:
            continue
        seen.add(cur)
        k, x = cur
        node = idx[x]
        if k == 'sim':
            if x in supplied or node['kind'] == 'const':
                continue
            for _, p in all_parents(node):
                if isinstance(p, str):
                    stack.append(('sim', p))
            if node['kind'] == 'disc':
                stack.append(('tw', x))
        elif k == 'obs':
            if node.get('observed') is not None:
                continue
            if node['kind'] == 'sim':
                continue      # parent-less copy of the simulator (generator avoids needing it)
            for _, p in all_parents(node):
                if isinstance(p, str):
                    stack.append(twin_or_self(idx, p))
        elif k == 'tw':
            for _, p in all_parents(node):
                if isinstance(p, str):
                    stack.append(twin_or_self(idx, p))
    return seen


def observed_depends_on_stochastic(idx, disc):
    """Does the observed data of discrepancy `disc` depend on a stochastic node?"""
    for (k, x) in twin_closure(idx, ('tw', disc)):
        if k == 'sim' and idx[x]['kind'] in STOCHASTIC_KINDS:
            return True
        if k == 'obs' and idx[x]['kind'] == 'sim' and idx[x].get('observed') is None:
            return True
    return False


def build_dag_model(elfi, spec, order=None, tag=None):
    """Real ElfiModel for a random DAG spec, nodes inserted in `order` (a topological order
    of the positional-parent relation); named edges are added with model.add_edge."""
    _build_counter[0] += 1
    tag = tag or 'g%d' % _build_counter[0]
    m = elfi.ElfiModel(name=tag)
    nodes = spec['nodes'] if order is None else order
    refs = {}
    for n in nodes:
        name, kind = n['name'], n['kind']
        if kind == 'const':
            refs[name] = elfi.Constant(n['value'], model=m, name=name)
            continue
        if kind == 'prior':
            args = [refs[a] if isinstance(a, str) else a for a in n['args']]
            refs[name] = elfi.Prior(RecDist('%s/%s' % (tag, name), n['dist'], name), *args,
                                    model=m, name=name)
            continue
        parents = [refs[p] if isinstance(p, str) else p for p in n['parents']]
        op = RecOp('%s/%s' % (tag, name), n['cfg'])
        kw = {}
        if kind in OBSERVABLE_KINDS and n.get('observed') is not None:
            kw['observed'] = n['observed']
        cls = {'op': elfi.Operation, 'sim': elfi.Simulator, 'sum': elfi.Summary,
               'disc': elfi.Discrepancy}[kind]
        if n.get('slot_order'):
            refs[name] = cls(op, model=m, name=name, **kw)
            for slot in n['slot_order']:
                m.add_edge(n['parents'][slot], name, slot)
        else:
            refs[name] = cls(op, *parents, model=m, name=name, **kw)
        if n['cfg'].get('use_meta'):
            refs[name].uses_meta = True
        elif n['cfg'].get('meta_false'):
            if n['cfg']['meta_false'] == 'true_then_false':
                refs[name].uses_meta = True
            refs[name].uses_meta = False
    for n in nodes:
        for pname, parent in n.get('named', {}).items():
            m.add_edge(parent, n['name'], param_name=pname)
    return m, refs


def topo_orders_ok(spec, order):
    pos = {n['name']: i for i, n in enumerate(order)}
    for n in order:
        for _, p in all_parents(n):
            if isinstance(p, str) and n['kind'] != 'const':
                if (_ := n.get('named', {})) and p in _.values() and p not in n.get('parents', []):
                    continue
                if pos[p] > pos[n['name']]:
                    return False
    return True


def random_insertion_order(tape, spec):
    """A tape-chosen order that respects positional parents (named edges are added last)."""
    remaining = list(spec['nodes'])
    done = set()
    out = []
    while remaining:
        ready = [n for n in remaining
                 if all((not isinstance(p, str)) or p in done
                        for p in (n.get('args', []) if n['kind'] == 'prior'
                                  else n.get('parents', [])))]
        n = ready[tape.int('insert_pick', 0, len(ready) - 1)]
        out.append(n)
        done.add(n['name'])
        remaining.remove(n)
    return out


def describe_dag(spec):
    out = []
    for n in spec['nodes']:
        d = {'name': n['name'], 'kind': n['kind']}
        if n['kind'] == 'const':
            d['value'] = n['value']
        elif n['kind'] == 'prior':
            d['dist'] = n['dist']
            d['args'] = n['args']
        else:
            d['parents'] = n['parents']
            if n.get('slot_order'):
                d['slot_order'] = n['slot_order']
            if n.get('named'):
                d['named'] = n['named']
            if n['cfg'].get('use_meta'):
                d['uses_meta'] = True
            if n['cfg']['shape']:
                d['shape'] = list(n['cfg']['shape'])
            if n.get('observed') is not None:
                d['observed'] = True
        out.append(d)
    return out

"""Choice tape: one integer decides everything; recorded decisions are the replay file.

Every decision of a simulated run (workload shape, schedule, faults, history operations) is
drawn through Tape.int/choice/chance.  `lo` is always the *simplest* value (no fault, ready
immediately, smallest size), so lowering values during minimisation simplifies the run.
"""
import hashlib
import random


def derive_seed(*parts):
    h = hashlib.sha256('|'.join(str(p) for p in parts).encode()).digest()
    return int.from_bytes(h[:8], 'big')


class Tape:
    def __init__(self, seed=None, replay=None, index=0):
        self.seed = seed
        self.index = index   # run index inside its kind (used by enumerating kinds)
        self.replay = list(replay) if replay is not None else None
        self.rng = random.Random(seed) if replay is None else None
        self.rec = []       # values
        self.labels = []    # labels, same length (only for humans)
        self.pos = 0

    def int(self, label, lo, hi):
        if hi < lo:
            hi = lo
        if self.replay is None:
            v = self.rng.randint(lo, hi)
        else:
            v = self.replay[self.pos] if self.pos < len(self.replay) else lo
            if v < lo:
                v = lo
            elif v > hi:
                v = hi
        self.pos += 1
        self.rec.append(v)
        self.labels.append(label)
        return v

    def choice(self, label, seq):
        return seq[self.int(label, 0, len(seq) - 1)]

    def chance(self, label, num, den):
        """True with probability num/den; the simplest value (0) is False."""
        if num <= 0:
            return False
        if num >= den:
            return True
        return self.int(label, 0, den - 1) >= den - num

    def unit(self, label, res=1 << 30):
        """A float in [0, 1); simplest is 0.0."""
        return self.int(label, 0, res - 1) / res

    def shuffle(self, label, seq):
        seq = list(seq)
        out = []
        while seq:
            out.append(seq.pop(self.int(label, 0, len(seq) - 1)))
        return out

    def subset(self, label, seq, num=1, den=2):
        return [x for x in seq if self.chance(label, num, den)]


def shrink(values, still_fails, max_runs=300):
    """Delta-debug `values` (list of ints) while still_fails(values) stays True.

    Deletes spans of halving size, then lowers single values towards 0 (clamping to each
    decision's `lo` happens inside Tape.int).  Returns (minimised values, executions used).
    """
    runs = [0]

    def test(v):
        if runs[0] >= max_runs:
            return False
        runs[0] += 1
        try:
            return bool(still_fails(v))
        except Exception:
            return False

    cur = list(values)
    # strip a trailing part first (cheap, big win)
    n = len(cur)
    chunk = max(1, n // 2)
    while chunk >= 1 and runs[0] < max_runs:
        i = len(cur) - chunk
        progressed = False
        while i >= 0 and runs[0] < max_runs:
            cand = cur[:i] + cur[i + chunk:]
            if len(cand) < len(cur) and test(cand):
                cur = cand
                progressed = True
            i -= chunk
        if chunk == 1 and not progressed:
            break
        if not progressed or chunk > len(cur):
            chunk //= 2
    # lower values
    improved = True
    while improved and runs[0] < max_runs:
        improved = False
        for i in range(len(cur)):
            if runs[0] >= max_runs:
                break
            if cur[i] == 0:
                continue
            cand = list(cur)
            cand[i] = 0
            if test(cand):
                cur = cand
                improved = True
                continue
            lo, hi = 0, cur[i]
            # binary search towards a smaller still-failing value
            while hi - lo > 1 and runs[0] < max_runs:
                mid = (lo + hi) // 2
                cand = list(cur)
                cand[i] = mid
                if test(cand):
                    hi = mid
                    cur = cand
                    improved = True
                else:
                    lo = mid
    return cur, runs[0]

"""C02 - seeded runs are pure functions of (model, seed, configuration).

A *workload* (model spec + 2-4 operations of interest) is executed under K different
histories in one process (other insertion order, reseeded / consumed global generator,
unrelated generate/infer calls before, other order and repetition of the operations, batch
indices requested in other orders on one long-lived context, other client facade / transport /
worker count / schedule with divergent per-worker global generators).  No history is
privileged: any two differing digests are a violation.  The same groups are recomputed in two
more interpreters under other PYTHONHASHSEEDs and compared (post phase).
"""
import json
import os
import subprocess
import sys
import tempfile

import numpy as np

from simkit import backend as bk
from simkit import simrun as sr
from simkit import spec as sp
from simkit.runner import Outcome

PROPERTY = 'C02'
LEVEL = 'exploration'
PLAN = {'quick': [('group', 500)], 'thorough': [('group', 30000)]}
CROSS_HASH = {'quick': 120, 'thorough': 3000}     # groups recomputed under other hash seeds
TIMEOUT = {'quick': 900, 'thorough': 6 * 3600}
RECHECK = 40
PAYLOAD_KEEP = 3000   # digests of the first groups are kept for the cross-hashseed comparison
RULE = ('each run = one workload group: a generated model (random acyclic program or '
        'priors->simulator->summaries->discrepancy, sometimes with a latent RandomVariable '
        'above a prior) with 2-4 operations of interest '
        '(model.generate(bs, outputs, with_values, seed); BatchHandler.compute(i) for a list of '
        'indices on one long-lived context; seeded Rejection / SMC sample) executed under K '
        'histories (K in {3,4,6,8}, tape-chosen) in one process - insertion order, global numpy '
        'generator reseeded/consumed, unrelated generate/infer calls on other models first, '
        'operations reordered and repeated, batch indices increasing/decreasing/repeated/'
        'jumping, 5 client facades with by-reference or pickled transport, 1-8 workers with '
        'divergent global generators, speculative schedules - plus (post phase) the same groups '
        'in two more interpreters under PYTHONHASHSEED 1 and 2. distinct = (workload shape, '
        'history shapes); non-trivial = at least two histories used different facades or '
        'different index orders and the group contained a stochastic node')
COMPONENTS = {
    'real': ['RandomStateLoader/get_sub_seed + sub-seed cache', 'RandomStateCompiler',
             'Executor + executor cache + nx_constant_topological_sort', 'ElfiModel.generate',
             'BatchHandler.compute', 'Rejection/SMC', 'all four client classes', 'pickle',
             'process-global numpy generator (simulated resource, swapped per worker)'],
    'stub': ['SimBackend under the clients', 'recording operations / distributions',
             'uuid counter', 'numpy alias shim',
             'subprocess as seen by elfi.model.tools -> in-process echo'],
}
ASSUMPTIONS = [
    'values are never compared with the reference interpreter (a wrong but pure function is '
    'C03) nor with ref_sub_seed (C15)',
    'meta[submission_index] / meta[model_name] are history dependent by design and not '
    'digested; whether a seeded call leaves the global generator untouched is a statistic',
    'real OS worker processes are replaced by the simulated backend; per-process hash '
    'randomisation is covered by re-running under three pinned PYTHONHASHSEEDs',
]


# ---------------------------------------------------------------------------------------------
# workload


def seed_choice(tape):
    """0 is a legal seed like any other (and falsy)."""
    return 0 if tape.chance('seed_zero', 1, 8) else tape.int('seed', 1, 2 ** 20)


def gen_workload(tape):
    family = tape.choice('family', ['inference', 'dag'])
    if family == 'inference':
        spec = sp.gen_inference_spec(tape, disc_kinds=('disc', 'dist'), ties=False, all_rec=True,
                                     latent=True, ext=True)
        d = [n for n in spec['nodes'] if n['name'] == 'd'][0]
        if d['kind'] == 'disc' and tape.chance('lattice', 1, 3):
            # count-like discrepancies: exact ties, and thresholds that are exactly 0
            d['cfg']['lattice'] = tape.choice('lattice_n', [3, 5, 10]) if spec['mode'] == 'mix' \
                else tape.choice('lattice_s', [2, 4, 10])
        names = [n['name'] for n in spec['nodes']]
        stochastic = True
    else:
        spec = sp.gen_dag_spec(tape, max_nodes=7)
        idx = sp.spec_index(spec)
        bad = {n['name'] for n in spec['nodes'] if n['kind'] == 'disc' and
               sp.observed_depends_on_stochastic(idx, n['name'])}
        names = []
        for n in spec['nodes']:
            cl = sp.twin_closure(idx, ('sim', n['name']))
            if not any(k == 'sim' and x in bad for k, x in cl):
                names.append(n['name'])
        stochastic = any(n['kind'] in sp.STOCHASTIC_KINDS for n in spec['nodes'])
        if bad or not names:
            # a graph that is rejected at compile time has no seeded result to compare
            spec = sp.gen_inference_spec(tape, disc_kinds=('disc', 'dist'), ties=False,
                                         all_rec=True)
            family = 'inference'
            names = [n['name'] for n in spec['nodes']]
            stochastic = True
    ops = []
    n_ops = tape.int('n_ops', 2, 4)
    for i in range(n_ops):
        kinds = ['generate', 'compute'] + (['sample'] if family == 'inference' else [])
        k = tape.choice('op_kind', kinds)
        if k == 'generate':
            outs = tape.subset('outputs', names, 1, 2) or [tape.choice('output', names)]
            bs_ = tape.int('bs', 1, 5)
            wv = {}
            if tape.chance('with_values', 1, 3):
                # supplied values are part of the operation (the same in every history)
                for nm in tape.subset('with_values_nodes', [n_ for n_ in names
                                                            if n_.lower()[:1] == 'p' or
                                                            n_.startswith('t')], 1, 2):
                    wv[nm] = [0.25 + 0.125 * j + 0.01 * tape.int('wv', 0, 50) for j in range(bs_)]
            ops.append({'id': 'g%d' % i, 'kind': 'generate', 'bs': bs_,
                        'outputs': outs, 'seed': seed_choice(tape), 'with_values': wv})
        elif k == 'compute':
            outs = tape.subset('outputs', names, 1, 2) or [tape.choice('output', names)]
            ops.append({'id': 'c%d' % i, 'kind': 'compute', 'bs': tape.int('bs', 1, 5),
                        'outputs': outs, 'seed': seed_choice(tape),
                        'indices': sorted({tape.int('index', 0, 12)
                                           for _ in range(tape.int('n_idx', 2, 5))})})
        else:
            ops.append({'id': 's%d' % i, 'kind': 'sample', 'wl': None})
    return family, spec, names, ops, stochastic


# ---------------------------------------------------------------------------------------------


def task_checks(out, calls, spec_order, where):
    """single-generator and fixed-order inside every task; returns {req: (order, first state)}."""
    per = {}
    for c in calls:
        # calls outside every batch request (a latent node run by ModelPrior's density nets in
        # the parent: each evaluation is a computation of its own with its own context) are
        # judged through the sampler result they feed, not as one task
        if c['has_rs'] and c['req'] is not None:
            per.setdefault((c['req'], c['task']), []).append(c)
    info = {}
    for key, cs in per.items():
        ids = {c['rs_id'] for c in cs}
        if len(ids) != 1:
            out.violate('single-generator', 'several-generators', where=where,
                        nodes=[c['node'] for c in cs])
            return None
        for a, b in zip(cs, cs[1:]):
            if a['rs_after'] != b['rs_before']:
                out.violate('single-generator', 'stream-gap', where=where, after=a['node'],
                            before=b['node'])
                return None
        order = [c['node'] for c in cs]
        pos = {n: i for i, n in enumerate(spec_order)}
        # topological: a stochastic node never runs before a stochastic ancestor (spec order is
        # a topological order; check pairwise ancestry through the spec)
        info[key] = (tuple(order), cs[0]['rs_before'])
    return info


def ancestors_map(spec):
    anc = {}
    for n in spec['nodes']:
        a = set()
        for _, p in sp.all_parents(n):
            if isinstance(p, str):
                a.add(p)
                a |= anc.get(p, set())
        anc[n['name']] = a
    return anc


def run(tape, kind, k_hist=None):
    out = Outcome()
    elfi = sr.reset_process_state(tape)
    sp.clear_registry()
    tier_k = tape.choice('k_histories', [4, 3, 6, 8])   # part of the tape: replay is self-contained
    family, spec, names, ops, stochastic = gen_workload(tape)
    anc = ancestors_map(spec)
    spec_order = [n['name'] for n in spec['nodes']]
    pil = sr.pilot(elfi, spec) if family == 'inference' else None
    if any(n.get('latent') for n in spec['nodes']) and any(
            'z0' in n.get('args', []) for n in spec['nodes'] if n['kind'] == 'prior'):
        out.probes['latent_node_above_prior'] += 1
    for op in ops:
        if op['kind'] == 'sample':
            meth = tape.choice('method', ['rejection', 'smc', 'rejection', 'smc', 'atsmc'])
            if meth == 'atsmc':
                op['wl'] = {'method': 'atsmc', 'batch_size': tape.int('batch_size', 4, 16),
                            'seed': tape.int('seed', 0, 2 ** 20),
                            'n_samples': tape.int('n_samples', 12, 30), 'output_names': [],
                            'objective': {'max_iter': tape.int('max_iter', 2, 3)}}
            else:
                op['wl'] = sr.gen_rejection_workload(tape, spec, pil) if meth == 'rejection' \
                    else sr.gen_smc_workload(tape, spec, pil)
    digests = {}        # key -> digest (first history that produced it)
    first_hist = {}
    gen_states = {}     # (seed, bs?, batch index) -> generator state digest
    orders = {}         # key -> order of stochastic nodes
    facades_used = set()
    index_orders = set()
    hist_shapes = []
    payload = {}

    def record(key, digest, h):
        if key in digests:
            if digests[key] != digest:
                kinds = {'g': 'generate', 'c': 'compute', 's': 'sample'}
                out.violate('history-independent', kinds.get(str(key[0])[:1], 'op'),
                            key=str(key), history_a=first_hist[key], history_b=h,
                            digest_a=digests[key], digest_b=digest)
                return False
        else:
            digests[key] = digest
            first_hist[key] = h
        return True

    def analyse(calls, key_of_req, h, seed_of_req):
        info = task_checks(out, calls, spec_order, 'history %d' % h)
        if info is None:
            return False
        for (req, task), (order, state0) in info.items():
            # fixed-order: topological
            for i, a in enumerate(order):
                for b in order[i + 1:]:
                    if b in anc.get(a, ()):
                        out.violate('fixed-order', 'not-topological', order=list(order))
                        return False
            k = key_of_req(req)
            if k is None:
                continue
            if k in orders and orders[k] != order:
                out.violate('fixed-order', 'differs-between-histories', key=str(k),
                            a=list(orders[k]), b=list(order))
                return False
            orders.setdefault(k, order)
            sk = seed_of_req(req)
            if sk is not None:
                if sk in gen_states and gen_states[sk] != state0:
                    out.violate('generator-by-seed-and-index', '', seed_index=str(sk),
                                history=h)
                    return False
                gen_states.setdefault(sk, state0)
        return True

    for h in range(tier_k):
        plain = (h == 0)
        # ---- the history's environment
        np.random.seed(tape.int('parent_rng', 0, 2 ** 20))
        out.stats['parent_rng_perturbation'] += 1
        order = None if plain else sp.random_insertion_order(tape, spec) \
            if family == 'dag' else sp.random_insertion_order(tape, spec)
        if family == 'dag':
            model, refs = sp.build_dag_model(elfi, spec, order=order)
        else:
            model, refs = sp.build_model(elfi, spec, order=order)
        sched = dict(sr.REFERENCE_SCHED) if plain else sr.gen_schedule(tape)
        fac = sched['facade']
        facades_used.add(fac)
        backend = None
        if fac != 'native':
            backend = bk.SimBackend(tape, out, n_workers=sched['workers'],
                                    pickled=(fac != 'pool_ref'), eager=sched['eager'],
                                    bg_max=sched['bg_max'], stall=sched['stall'])
        # ---- unrelated computations first
        if not plain:
            for _ in range(tape.int('unrelated', 0, 2)):
                uspec = sp.gen_inference_spec(tape, disc_kinds=('disc',), ties=False, max_priors=2)
                um, _ = sp.build_model(elfi, uspec)
                rec = sp.REC.enabled
                sp.REC.enabled = False
                try:
                    import elfi.clients.native as enative
                    elfi.set_client(enative.Client())
                    if tape.chance('unrelated_infer', 1, 2):
                        elfi.Rejection(um, uspec['disc'], batch_size=3,
                                       seed=tape.int('useed', 0, 99)).sample(2, n_sim=6, bar=False)
                    else:
                        um.generate(tape.int('ubs', 1, 4), seed=tape.int('useed', 0, 99)
                                    if tape.chance('useeded', 1, 2) else None)
                finally:
                    sp.REC.enabled = rec
                out.probes['unrelated_computation_before'] += 1
        # ---- the operations of interest, reordered and repeated
        todo = list(ops) if plain else tape.shuffle('op_order', ops)
        if not plain and tape.chance('repeat_op', 1, 2):
            todo.append(tape.choice('repeated', ops))
        shape = [fac]
        for op in todo:
            if not plain and tape.chance('perturb_between', 1, 3):
                if tape.chance('consume', 1, 2):
                    np.random.random_sample(tape.int('consume_n', 1, 50))
                else:
                    np.random.seed(tape.int('reseed', 0, 2 ** 20))
                out.stats['parent_rng_perturbation'] += 1
            g0 = sp.rs_digest(np.random.mtrand._rand)
            if op['kind'] == 'sample':
                sp.REC.reset(None)
                ho = Outcome()
                run_ = sr.SamplerRun(tape, ho, spec, op['wl'], sched, model=model, quiet=True)
                res = run_.sample(op['wl']['n_samples'], **op['wl']['objective'])
                out.stats.update(ho.stats)
                out.probes.update(ho.probes)
                out.steps += ho.steps
                for v in ho.violations:
                    out.violations.append(v)
                if ho.inconclusive:
                    out.inconclusive = True
                    out.ev('history %d: step cap' % h)
                    return out
                if res is None:
                    d = 'raises:' + (type(run_.errors[-1]).__name__ if run_.errors else '?')
                else:
                    d = sp.dg(sr.sample_fingerprint(res))
                out.ev('H%d %s %s -> %s' % (h, op['id'], fac, d))
                if not record((op['id'],), d, h):
                    return out
                seed = op['wl']['seed']
                ri = run_.req_info
                if not analyse(sp.REC.calls,
                               lambda q: ('sample-task', op['id'], ri[q]['bi'],
                                          tuple(ri[q]['override'])) if q in ri else None,
                               h, lambda q: (seed, ri[q]['bi']) if q in ri else None):
                    return out
            else:
                sp.REC.reset(backend)
                client = bk.make_client(elfi, fac, backend)
                elfi.set_client(client)
                cur = [None]
                sp.mark_client(client, lambda: cur[0])
                reqs = {}
                if op['kind'] == 'generate':
                    cur[0] = 'r0'
                    reqs['r0'] = 0
                    try:
                        wv_ = {k_: np.array(v_) for k_, v_ in (op.get('with_values') or {}).items()}
                        res = model.generate(op['bs'], outputs=list(op['outputs']),
                                             with_values=wv_ or None, seed=op['seed'])
                        d = sp.dg({k: np.asarray(v) for k, v in res.items()})
                    except Exception as e:
                        d = 'raises:' + type(e).__name__
                    cur[0] = None
                    out.ev('H%d %s %s -> %s' % (h, op['id'], fac, d))
                    if not record((op['id'],), d, h):
                        return out
                else:
                    ctx = elfi.ComputationContext(batch_size=op['bs'], seed=op['seed'])
                    handler = elfi.client.BatchHandler(model, ctx, output_names=list(op['outputs']),
                                                       client=client)
                    idxs = list(op['indices'])
                    if not plain:
                        how = tape.choice('index_order', ['increasing', 'decreasing', 'shuffled',
                                                          'repeated'])
                        if how == 'decreasing':
                            idxs = idxs[::-1]
                        elif how == 'shuffled':
                            idxs = tape.shuffle('idx_shuffle', idxs)
                        elif how == 'repeated':
                            idxs = idxs + tape.shuffle('idx_shuffle', idxs)
                        index_orders.add(how)
                    else:
                        index_orders.add('increasing')
                    shape.append(tuple(idxs))
                    for n, bi in enumerate(idxs):
                        rid = 'r%d' % n
                        cur[0] = rid
                        reqs[rid] = bi
                        try:
                            res = handler.compute(bi)
                            d = sp.dg({k: np.asarray(v) for k, v in res.items()})
                        except Exception as e:
                            d = 'raises:' + type(e).__name__
                        cur[0] = None
                        out.ev('H%d %s[%d] %s -> %s' % (h, op['id'], bi, fac, d))
                        if not record((op['id'], bi), d, h):
                            return out
                seed = op['seed']
                if not analyse(sp.REC.calls,
                               lambda q: ('task', op['id'], reqs[q]) if q in reqs else None, h,
                               lambda q: (seed, reqs[q]) if q in reqs else None):
                    return out
            if sp.rs_digest(np.random.mtrand._rand) != g0:
                out.probes['seeded_op_touched_parent_global_rng'] += 1
            shape.append(op['id'])
        hist_shapes.append(tuple(shape))
    payload = {str(k): v for k, v in digests.items()}
    out.payload = payload
    out.abstract = (family, tuple(n['kind'][0] for n in spec['nodes']),
                    tuple((o['kind'],) for o in ops), tuple(hist_shapes))
    out.nontrivial = stochastic and (len(facades_used) > 1 or len(index_orders) > 1)
    out.sample = {'family': family,
                  'spec': sp.describe_spec(spec) if family == 'inference' else sp.describe_dag(spec),
                  'ops': [{k: v for k, v in o.items() if k != 'wl'} | (
                      {'workload': o['wl']} if o.get('wl') else {}) for o in ops],
                  'histories': [list(map(str, s)) for s in hist_shapes]}
    return out


# ---------------------------------------------------------------------------------------------
# cross-interpreter part (other PYTHONHASHSEEDs)


def internal(what, tier, seed):
    """Recompute the digests of the first N groups in this interpreter; write them as JSON."""
    from simkit import runner
    n = int(os.environ['VERIF_C02_N'])
    import concurrent.futures as cf
    import multiprocessing
    jobs = [(__name__, 'group', list(range(i, min(n, i + 10))), seed, 0) for i in range(0, n, 10)]
    res = {}
    with cf.ProcessPoolExecutor(max_workers=int(os.environ.get('VERIF_WORKERS', 8)),
                                mp_context=multiprocessing.get_context('fork')) as ex:
        for chunk, _agg, _ in ex.map(runner._worker_chunk, jobs):
            for r in chunk:
                if 'harness_error' in r:
                    res[str(r['index'])] = {'harness_error': r['harness_error'][-500:]}
                else:
                    res[str(r['index'])] = r.get('payload') or {}
    with open(os.environ['VERIF_INTERNAL_OUT'], 'w') as f:
        json.dump({'hashseed': os.environ.get('PYTHONHASHSEED'), 'digests': res}, f)
    return 0


def post(tier, verif_seed, ok, extras):
    n = min(CROSS_HASH[tier], max(1, int(CROSS_HASH[tier] * float(os.environ.get('VERIF_SCALE', 1)))))
    mine = {str(r['index']): r['payload'] for r in ok if r['index'] < n and 'payload' in r}
    n = len(mine)
    viol = []
    compared = 0
    skipped = 0
    samples = []
    here = os.path.dirname(os.path.dirname(os.path.abspath(__file__)))
    procs = []
    tmpd = tempfile.mkdtemp(prefix='verif-c02-')
    try:
        for hs in ('1', '2'):
            outp = os.path.join(tmpd, 'h%s.json' % hs)
            env = dict(os.environ, VERIF_HASHSEED=hs, PYTHONHASHSEED=hs, VERIF_C02_N=str(n),
                       VERIF_INTERNAL_OUT=outp, VERIF_WORKERS='8')
            env.pop('VERIF_REEXEC', None)
            p = subprocess.Popen([sys.executable, os.path.join(here, 'check.py'), 'C02', '--tier',
                                  tier, '--internal', 'digests'], env=env,
                                 stdout=subprocess.PIPE, stderr=subprocess.STDOUT)
            procs.append((hs, p, outp))
        for hs, p, outp in procs:
            so, _ = p.communicate(timeout=TIMEOUT[tier])
            if p.returncode != 0 or not os.path.exists(outp):
                raise RuntimeError('cross-hash interpreter %s failed: %s' % (hs, so[-800:]))
            other = json.load(open(outp))
            if other['hashseed'] != hs:
                raise RuntimeError('hash seed not applied')
            for idx, dg in mine.items():
                od = other['digests'].get(idx)
                if od is not None and 'harness_error' in od:
                    raise RuntimeError('cross-hash interpreter failed on group %s: %s' % (idx, od))
                if not od or not dg:
                    # the group ended early there or here (violation / step cap): its digests
                    # are incomplete and the in-process clauses already judged it
                    skipped += 1
                    continue
                compared += 1
                diff = [k for k in set(dg) | set(od) if dg.get(k) != od.get(k)]
                if diff:
                    viol.append({'signature': 'history-independent/hashseed',
                                 'detail': {'group_index': int(idx), 'hashseed': hs,
                                            'keys': diff[:5], 'verif_seed': verif_seed}})
            if len(samples) < 2:
                samples.append({'hashseed': hs, 'groups_compared': len(mine)})
    finally:
        import shutil
        shutil.rmtree(tmpd, ignore_errors=True)
    info = {'cross_hashseed_groups': n, 'cross_hashseed_comparisons': compared,
            'cross_hashseed_groups_skipped_incomplete': skipped,
            'hashseeds': ['0', '1', '2'], 'samples': samples}
    return viol[:5], info

"""C07 - SMC-ABC populations satisfy thresholds, prior support and importance weights.

Invariants evaluated on every simulated SMC run (arbitrary schedules, continued sampling)
against an independent recomputation that uses only scipy.stats and the model *spec*.
"""
import collections

import numpy as np
import scipy.stats as ss

from simkit import simrun as sr
from simkit import spec as sp
from simkit.runner import Outcome

PROPERTY = 'C07'
LEVEL = 'exploration'
PLAN = {'quick': [('smc', 2500)], 'thorough': [('smc', 200000)]}
TIMEOUT = {'quick': 900, 'thorough': 6 * 3600}
RULE = ('each run: generated model (bounded uniform/beta, unbounded normal, half-bounded '
        'exponential and hierarchical priors, 1-3 parameters) x SMC with a thresholds list or a '
        'quantiles list, 2-4 rounds, batch_size 1..12, population size 1..16, optional continued '
        'sample() on the same sampler, under a tape-chosen schedule (5 facades, speculation, '
        'cancel at round ends). Every population is re-derived from the spec with scipy: prior '
        'support, importance weights, proposal covariance, threshold (any valid weighted '
        'quantile element accepted), particle identity (content-addressed rows of the batches '
        'consumed in that round), n_sim. distinct = (objective kind, rounds, dims, prior '
        'families, batch_size, n_samples, facade, consumed batches per round); non-trivial = '
        '>= 2 populations and at least one speculative batch was cancelled at a round end')
COMPONENTS = {
    'real': ['SMC.update/prepare_new_batch/_compute_weights_means_and_cov/_set_threshold',
             'inner Rejection', 'GMDistribution', 'ModelPrior', 'weighted_sample_quantile',
             'weighted_var', 'BatchHandler', 'client classes', 'compiler/loaders/Executor'],
    'stub': ['pool/view/dask objects under the clients (SimBackend)', 'uuid counter',
             'numpy.Inf alias shim'],
}
ASSUMPTIONS = [
    'SMC with >=2 parameters is generated with n_samples>=2 (GMDistribution squeezes a single '
    'particle into d one-dimensional components and raises; C13 territory)',
    'discrepancies are finite (no injected inf) so that quantile rounds are well defined',
    'weights compared with rtol 1e-7, covariance with rtol 1e-9',
]


def valid_quantile_elements(x, w, alpha, eps=1e-12):
    """All elements q of x with  W(x<=q) >= alpha  and  W(x<q) <= alpha  (C13's definition)."""
    x = np.asarray(x, float)
    w = np.asarray(w, float)
    w = w / w.sum()
    ok = []
    for q in np.unique(x):
        le = w[x <= q].sum()
        lt = w[x < q].sum()
        if le >= alpha - eps and lt <= alpha + eps:
            ok.append(q)
    return ok


def gm_logpdf(theta, means, cov, weights):
    w = np.asarray(weights, float)
    w = w / w.sum()
    dens = np.zeros(len(theta))
    for m, wj in zip(means, w):
        dens += wj * np.atleast_1d(ss.multivariate_normal.pdf(theta, mean=m, cov=cov))
    with np.errstate(divide='ignore'):
        return np.log(dens)


def check_smc(out, res, run_, wl, spec, calls):
    names = sorted(spec['params'])
    dname = spec['disc']
    bs = wl['batch_size']
    pops = res.populations
    # thresholds / alphas per round over all calls
    thr = []
    alphas = []
    for (n, obj) in calls:
        if 'thresholds' in obj:
            thr += list(obj['thresholds'])
            alphas += [None] * len(obj['thresholds'])
        else:
            alphas += list(obj['quantiles'])
            thr += [None] * len(obj['quantiles'])
    if len(pops) != len(thr):
        out.violate('pop-count', '', populations=len(pops), rounds=len(thr))
        return
    n_per_round = []
    for (n, obj) in calls:
        n_per_round += [n] * len(list(obj.values())[0])
    per_round = collections.defaultdict(list)
    ok_calls = len(calls)
    consumed = [(x, r) for x, r in zip(run_.consumed, run_.rounds) if x[0] <= ok_calls]
    for (c, bi, b), r in consumed:
        per_round[r].append(b)
    total_batches = 0
    for r, pop in enumerate(pops):
        n_samples = n_per_round[r]
        outs = pop.outputs
        onames = sorted(outs)
        for k in onames:
            if len(outs[k]) != n_samples:
                out.violate('pop-size', '', round=r, output=k, rows=len(outs[k]))
                return
        d = np.asarray(outs[dname], float)
        theta = np.column_stack([outs[p] for p in names])
        # threshold in force
        if thr[r] is not None:
            if np.any(d > thr[r]):
                out.violate('pop-threshold', 'user-threshold', round=r, threshold=thr[r],
                            max_d=float(d.max()))
        elif r > 0:
            prev = pops[r - 1]
            V = valid_quantile_elements(prev.outputs[dname], prev.weights, alphas[r])
            if not V:
                raise RuntimeError('no valid quantile element (oracle bug)')
            if d.max() > max(V):
                out.violate('pop-threshold', 'quantile', round=r, alpha=alphas[r],
                            valid_quantile_elements=V[:5], max_d=float(d.max()))
        # support
        lp = sp.prior_logpdf(spec, theta)
        if not np.all(np.isfinite(lp)):
            out.violate('support', '', round=r, bad=int(np.sum(~np.isfinite(lp))))
        # weights
        w = np.asarray(pop.weights, float)
        if r == 0:
            if not np.array_equal(w, np.ones(n_samples)):
                out.violate('weights-first', '', weights=w[:6].tolist())
        else:
            prev = pops[r - 1]
            pm = np.column_stack([prev.outputs[p] for p in names])
            q = gm_logpdf(theta, pm, np.asarray(prev.meta['cov']), prev.weights)
            with np.errstate(over='ignore', invalid='ignore'):
                exp = np.exp(lp - q)
            fin = np.isfinite(exp) & np.isfinite(w)
            if not (np.array_equal(np.isfinite(exp), np.isfinite(w)) and
                    np.allclose(w[fin], exp[fin], rtol=1e-7, atol=0)):
                out.violate('weights-later', '', round=r, got=w[:5].tolist(),
                            expected=exp[:5].tolist())
        # covariance
        cov = np.asarray(pop.meta['cov'], float)
        V1 = w.sum()
        V2 = (w ** 2).sum()
        xbar = (w[:, None] * theta).sum(axis=0) / V1
        with np.errstate(divide='ignore', invalid='ignore'):
            s2 = (w[:, None] * (theta - xbar) ** 2).sum(axis=0) / (V1 - V2 / V1)
        if np.all(np.isfinite(s2)):
            if cov.shape != (len(names), len(names)) or \
                    not np.allclose(cov, 2 * np.diag(s2), rtol=1e-9, atol=1e-300):
                out.violate('cov', '', round=r, got=np.diag(cov).tolist() if cov.ndim == 2
                            else cov.tolist(), expected=(2 * s2).tolist())
        else:
            out.probes['cov_fallback'] += 1
            if not np.array_equal(cov, np.eye(len(names))):
                out.violate('cov', 'fallback', round=r, got=cov.tolist())
        # particle identity: rows are draws consumed in this round
        batches = per_round.get(r, [])
        if batches:
            cons = {k: np.concatenate([np.asarray(b[k]) for b in batches]) for k in onames}
            ckeys = collections.Counter(zip(*[sp.rows_key(cons[k]) for k in onames]))
            seen = collections.Counter()
            for i, key in enumerate(zip(*[sp.rows_key(np.asarray(outs[k])) for k in onames])):
                seen[key] += 1
                if seen[key] > ckeys.get(key, 0):
                    out.violate('particle-identity', '', round=r, row=i)
                    break
        else:
            out.violate('particle-identity', 'no-batches-in-round', round=r)
        # n_sim per population
        if pop.meta.get('n_sim') != bs * len(batches):
            out.violate('n_sim-total', 'population', round=r, n_sim=pop.meta.get('n_sim'),
                        consumed_batches=len(batches), bs=bs)
        total_batches += len(batches)
    if res.meta.get('n_sim') != bs * len(consumed):
        out.violate('n_sim-total', 'sampler', n_sim=res.meta.get('n_sim'),
                    consumed_batches=len(consumed), bs=bs)
    return [len(per_round.get(r, [])) for r in range(len(pops))]


def run(tape, kind):
    out = Outcome()
    elfi = sr.reset_process_state(tape)
    sp.clear_registry()
    spec = sp.gen_inference_spec(tape, disc_kinds=('disc', 'dist'), ties=False, far=True)
    d = [n for n in spec['nodes'] if n['name'] == 'd'][0]
    if d['kind'] == 'disc' and tape.chance('lattice', 1, 3):
        d['cfg']['lattice'] = tape.choice('lattice_n', [5, 10]) if spec['mode'] == 'mix' \
            else tape.choice('lattice_s', [4, 10])
    pil = sr.pilot(elfi, spec)
    wl = sr.gen_smc_workload(tape, spec, pil)
    calls = [(wl['n_samples'], wl['objective'])]
    if tape.chance('second_call', 1, 3):
        key = list(wl['objective'])[0]
        nxt = [wl['objective'][key][-1]] if key == 'thresholds' else \
            [tape.choice('q2', [0.5, 0.7, 0.3, 1.0])]
        # the continued call may ask for another population size
        n2 = tape.choice('n_samples_2', [wl['n_samples'], wl['n_samples'], wl['n_samples'] + 3,
                                         max(2, wl['n_samples'] - 2)])
        calls.append((n2, {key: nxt}))
    sched = sr.gen_schedule(tape)
    out.sample = {'spec': sp.describe_spec(spec), 'workload': wl, 'calls': len(calls),
                  'schedule': sched}
    sp.REC.reset(None)
    run_ = sr.SamplerRun(tape, out, spec, wl, sched)
    res = None
    for ci_, (n, obj) in enumerate(calls):
        if ci_ > 0 and tape.chance('abandoned_objective', 1, 4):
            # an objective that is set but never run (the user changes their mind) must not
            # leave anything behind
            key_ = list(obj)[0]
            other = [v * 2.0 + 0.5 for v in obj[key_]] if key_ == 'thresholds' else \
                [min(0.95, v + 0.2) for v in obj[key_]]
            try:
                run_.sampler.set_objective(n, **{key_: other + other[:1]})
                out.probes['abandoned_objective'] += 1
            except Exception as e:
                run_.errors.append(e)
        r = run_.sample(n, **obj)
        if r is None:
            if run_.errors and not out.inconclusive:
                # an SMC run that raises has not "returned a population"; count, do not judge
                out.probes['raised_' + type(run_.errors[-1]).__name__] += 1
                out.ev('sample raised: %s' % str(run_.errors[-1])[:120])
                if res is None:
                    out.inconclusive = True
            break
        res = r
        run_.drain()
    if res is None:
        return out
    per_round = check_smc(out, res, run_, wl, spec, calls[:len(run_.results)])
    sr.check_in_order(out, run_, continuing=True)
    # the populations of an EARLIER call's result are still exactly the populations it returned
    run_.check_results_stable('pop-count')
    fams = tuple(n['dist'] + ('*' if any(isinstance(a, str) for a in n['args']) else '')
                 for n in spec['nodes'] if n['kind'] == 'prior')
    out.abstract = (list(wl['objective'])[0], len(res.populations), fams, wl['batch_size'],
                    wl['n_samples'], sched['facade'], tuple(per_round or ()))
    out.nontrivial = len(res.populations) >= 2 and out.probes.get('cancel_rewind', 0) > 0
    if any('*' in f for f in fams):
        out.probes['hierarchical_prior'] += 1
    if len(calls) > 1 and len(run_.results) > 1:
        out.probes['continued_sampling'] += 1
    out.probes['objective_' + list(wl['objective'])[0]] += 1
    return out

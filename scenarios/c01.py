"""C01 - rejection ABC returns exactly the best simulated draws, row-consistent.

Oracle over the recorded history (every batch passed to Rejection.update) of simulated
Rejection runs under arbitrary schedules.
"""
import collections
from math import ceil

import numpy as np

from simkit import simrun as sr
from simkit import spec as sp
from simkit.runner import Outcome

PROPERTY = 'C01'
LEVEL = 'exploration'
PLAN = {'quick': [('rej', 7000)], 'thorough': [('rej', 700000)]}
TIMEOUT = {'quick': 900, 'thorough': 6 * 3600}
RULE = ('each run: generated model with recording simulator/summaries, discrepancy = Distance '
        'or recording discrepancy mapped on a small lattice (ties) with injected inf values, '
        'extra requested outputs of row shapes (), (k,), (k,l); Rejection with threshold | '
        'quantile | n_sim objective, batch_size 1..12, n_samples <,=,> batch_size, budgets not '
        'divisible by batch_size, optional second sample(); executed under a tape-chosen '
        'schedule (5 client facades, speculation, cancellation). Rows are content-addressed, so '
        'every returned row is matched against the draws actually consumed. distinct = '
        '(objective kind, batch_size, n_samples, consumed batches, ties?, inf?, facade, output '
        'shapes); non-trivial = more draws consumed than returned and (ties or inf or threshold)')
COMPONENTS = {
    'real': ['Rejection.update/_merge_batch/_update_objective_n_batches/extract_result',
             'ParameterInference.infer/iterate', 'BatchHandler', 'all four client classes',
             'compiler/loaders/Executor', 'Sample'],
    'stub': ['pool/view/dask objects under the clients (SimBackend)', 'uuid counter',
             'numpy.Inf alias shim'],
}
ASSUMPTIONS = [
    'budget modes are generated with budget >= n_samples (otherwise "exactly n_samples" is '
    'arithmetically impossible)',
    'adaptive distances are excluded (judged under C12/C04)',
    'rows are identified by the bit pattern of all their outputs (continuous draws mixed in)',
]


def check_rejection_result(out, res, batches, wl, n_samples, objective, spec, call):
    """All C01 clauses for one finished sample() call."""
    dname = spec['disc']
    names = sorted(res.outputs)
    bs = wl['batch_size']
    # count
    for k in names:
        if len(res.outputs[k]) != n_samples:
            out.violate('count', '', output=k, rows=len(res.outputs[k]), n_samples=n_samples)
            return
    cons = {k: np.concatenate([np.asarray(b[k]) for b in batches]) for k in names}
    d_all = np.asarray(cons[dname], dtype=float)
    rd = np.asarray(res.outputs[dname], dtype=float)
    if d_all.ndim != 1 or rd.ndim != 1:
        raise RuntimeError('C01 workloads use 1-d discrepancies')
    thr = objective.get('threshold')
    acceptable = d_all <= thr if thr is not None else np.ones(len(d_all), bool)
    n_finite_ok = int(np.sum(acceptable & np.isfinite(d_all)))
    f1_cond = n_finite_ok < n_samples
    # ascending
    if not all(rd[i] <= rd[i + 1] for i in range(len(rd) - 1)):
        out.violate('ascending', '', call=call)
    # row-identity (injective map returned rows -> consumed rows, identical in every output);
    # the discrepancy is compared by value (an integer discrepancy is reported as float)
    def keyed(k, arr):
        arr = np.asarray(arr)
        return sp.rows_key(arr.astype(np.float64) if k == dname else arr)
    ckeys = collections.Counter(zip(*[keyed(k, cons[k]) for k in names]))
    rkeys = list(zip(*[keyed(k, res.outputs[k]) for k in names]))
    bad = []
    seen = collections.Counter()
    for i, key in enumerate(rkeys):
        seen[key] += 1
        if seen[key] > ckeys.get(key, 0):
            bad.append(i)
    if bad:
        only_inf_rows = all(not np.isfinite(rd[i]) for i in bad)
        sig = 'finite-acceptable<n_samples' if (f1_cond and only_inf_rows) else ''
        # which outputs disagree for the first bad row (no payload: it may be uninitialised)
        per_out = {}
        i0 = bad[0]
        for k in names:
            rk = keyed(k, res.outputs[k])[i0]
            per_out[k] = rk in set(keyed(k, cons[k]))
        out.violate('row-identity', sig, call=call, bad_rows=bad[:10], n_samples=n_samples,
                    finite_acceptable=n_finite_ok, each_output_is_some_consumed_row=per_out)
    # best-n
    pool = np.sort(d_all[acceptable])
    exp = pool[:n_samples]
    if len(exp) != len(rd) or not np.array_equal(np.sort(rd), exp):
        sig = ''
        out.violate('best-n', sig, call=call, returned=np.sort(rd)[:12].tolist(),
                    expected=exp[:12].tolist(), consumed=len(d_all))
    if thr is not None and np.any(rd > thr):
        out.violate('best-n', 'above-threshold', call=call, threshold=thr)
    # reported threshold
    rt = res.meta.get('threshold')
    if not (np.asarray(rt, dtype=float) == rd[-1] or (np.isinf(rd[-1]) and np.isinf(rt))):
        out.violate('reported-threshold', '', call=call, reported=float(rt), largest=float(rd[-1]))
    # n_sim
    if res.meta.get('n_sim') != bs * len(batches) or \
            res.meta.get('n_batches') != len(batches):
        out.violate('n_sim', '', call=call, n_sim=res.meta.get('n_sim'),
                    n_batches=res.meta.get('n_batches'), consumed_batches=len(batches), bs=bs)
    # budget
    budget = None
    if 'n_sim' in objective:
        budget = objective['n_sim']
    elif 'quantile' in objective:
        budget = ceil(n_samples / objective['quantile'])
    elif 'threshold' not in objective:
        budget = ceil(n_samples / 0.01)     # no objective given: documented default quantile
    if budget is not None and len(batches) != ceil(budget / bs):
        out.violate('budget-batches', '', call=call, consumed=len(batches),
                    expected=ceil(budget / bs))
    vals, cnt = np.unique(d_all[np.isfinite(d_all)], return_counts=True)
    return {'ties': bool(np.any(cnt > 1)), 'inf': bool(np.any(~np.isfinite(d_all))),
            'f1_cond': f1_cond, 'consumed': len(d_all)}


def run(tape, kind):
    out = Outcome()
    elfi = sr.reset_process_state(tape)
    sp.clear_registry()
    spec = sp.gen_inference_spec(tape, disc_kinds=('disc', 'disc', 'dist'), extra_shapes=True,
                                 ties=True)
    pil = sr.pilot(elfi, spec)
    wl = sr.gen_rejection_workload(tape, spec, pil, allow_default=True)
    if tape.chance('second_call', 1, 4):
        w2 = sr.gen_rejection_workload(tape, spec, pil, allow_default=True)
        wl['second'] = (w2['n_samples'], w2['objective'])
    sched = sr.gen_schedule(tape)
    out.sample = {'spec': sp.describe_spec(spec), 'workload': wl, 'schedule': sched}
    sp.REC.reset(None)
    pool = None
    if tape.chance('with_pool', 1, 4):
        # the run stores outputs in an OutputPool (store sets without parameters): a second
        # call on the same object is then served from what the first one left there
        cands = ['sim'] + list(spec['sums']) + [spec['disc']]
        stores = [c for c in cands if tape.chance('pool_store', 1, 2)] or [spec['disc']]
        pool = elfi.OutputPool(stores)
        out.probes['run_with_pool'] += 1
        out.sample['pool_stores'] = stores
    run_ = sr.SamplerRun(tape, out, spec, wl, sched, pool=pool)
    calls = [(wl['n_samples'], wl['objective'])]
    if 'second' in wl:
        calls.append(wl['second'])
    info = None
    for ci, (n, obj) in enumerate(calls, 1):
        if tape.chance('manual_drive', 1, 5):
            # hand-driven run (set_objective / iterate / extract_result), optionally looking at
            # the intermediate result once or twice on the way
            peeks = sorted({tape.int('peek_after', 1, 6)
                            for _ in range(tape.int('n_peeks', 0, 2))})
            res = run_.drive_manually(n, peek_after=peeks, **obj)
            out.probes['manual_drive'] += 1
        else:
            res = run_.sample(n, **obj)
        if res is None:
            if run_.errors:
                out.violate('finishes', type(run_.errors[-1]).__name__, call=ci,
                            msg=str(run_.errors[-1])[:300])
            return out
        batches = [b for (c, bi, b) in run_.consumed if c == ci]
        info = check_rejection_result(out, res, batches, wl, n, obj, spec, ci)
        if info is None:
            return out
        run_.drain()
    sr.check_in_order(out, run_, continuing=False)
    run_.check_results_stable('count')
    shapes = tuple(sorted((k, np.asarray(v).shape[1:]) for k, v in res.outputs.items()))
    okind = (list(wl['objective']) or ['default'])[0]
    out.abstract = (okind, wl['batch_size'], wl['n_samples'], len(run_.consumed), info['ties'],
                    info['inf'], sched['facade'], shapes)
    out.nontrivial = info['consumed'] > wl['n_samples'] and (
        info['ties'] or info['inf'] or okind == 'threshold')
    if info['ties']:
        out.probes['ties'] += 1
    if info['inf']:
        out.probes['inf_discrepancy'] += 1
    if info['f1_cond']:
        out.probes['fewer_finite_than_n_samples'] += 1
    out.probes['objective_' + okind] += 1
    return out

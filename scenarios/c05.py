"""C05 - output pools are transparent: reuse never changes results or re-simulates.

Histories over ONE pool object (fill, rerun with the same / a smaller / a larger budget,
remove_store, replace a downstream node and run a new sampler on the edited model, ArrayPool
flush/save/close+open), every run under the simulated scheduler (the pool is read at
submission and written at consumption, so cancelled speculative batches and re-submitted
indices are where stale or missing entries would come from).
"""
import copy as pycopy
import gc
import os
import shutil
import tempfile

import numpy as np

from simkit import simrun as sr
from simkit import spec as sp
from simkit.runner import Outcome

PROPERTY = 'C05'
LEVEL = 'exploration'
PLAN = {'quick': [('pool', 1500)], 'thorough': [('pool', 100000)]}
TIMEOUT = {'quick': 900, 'thorough': 6 * 3600}
RULE = ('each run: generated model (vector outputs C-, Fortran-ordered or axis-permuted in memory), '
        'one seed, one batch_size, one pool object (OutputPool or '
        'on-disk ArrayPool) whose store set is drawn from the stated form (non-empty subset of '
        '{simulator} + its descendants, optionally + ALL parameters; sets outside the form are '
        'negative controls and never judged) and a history of 2-5 steps: fill (Rejection or '
        'SMC), rerun same/smaller/larger budget, remove_store, replace a summary/discrepancy '
        '(after removing the stores of it and its descendants) and run on the edited model, '
        'ArrayPool flush/save/close+open; every sampler run on a tape-chosen facade/schedule. '
        'Each run is compared with the same run without a pool (native client). distinct = '
        '(pool kind, store-set shape, history op kinds, methods); non-trivial = a run REUSED '
        'stored batches (pool hit at submission) and a speculative batch was submitted')
COMPONENTS = {
    'real': ['PoolLoader', 'ComputationContext.callback/validation', 'OutputPool/ArrayPool/'
             'NpyStore/NpyArray (real files)', 'Executor (skips nodes with outputs)',
             'Rejection/SMC + BatchHandler + clients', 'NodeReference.become'],
    'stub': ['SimBackend under the clients', 'uuid counter', 'numpy alias shim'],
}
ASSUMPTIONS = [
    'store sets outside the stated form (e.g. parameters only, part of the parameters) are '
    'run as negative controls and not judged',
    'a node is replaced only after the stores of that node and of its descendants were removed '
    'from the pool (the documented way to reuse simulations under new summaries)',
    'the pool-free reference requests the stored nodes as additional outputs (this does not '
    'change any value or batch count) so that pool content can be compared batch by batch',
]
EXPECTED_PROBES = {'quick': ['pool_hit', 'pool_partial_hit', 'rerun_needs_more_batches',
                             'speculative_submit']}


def descendants(spec, name):
    out = set()
    changed = True
    while changed:
        changed = False
        for n in spec['nodes']:
            if n['name'] in out or n['kind'] == 'prior':
                continue
            if any(p == name or p in out for p in n.get('parents', []) if isinstance(p, str)):
                out.add(n['name'])
                changed = True
    return out


def gen_store_set(tape, spec):
    desc = sorted(descendants(spec, 'sim'))
    base = ['sim'] + desc
    chosen = [x for x in base if tape.chance('store', 1, 2)] or [tape.choice('store_one', base)]
    with_params = tape.chance('store_params', 1, 2)
    control = False
    if tape.chance('negative_control', 1, 8):
        control = True
        if tape.chance('control_params_only', 1, 2):
            chosen = []
            with_params = True
        else:
            # part of the parameters only
            stores = chosen + spec['params'][:max(0, len(spec['params']) - 1)]
            if len(spec['params']) >= 2:
                return stores, True
            chosen = []
            with_params = True
    stores = chosen + (list(spec['params']) if with_params else [])
    return stores, control


def reference_run(cache, tape, spec, wl, stores, version):
    """Same run without a pool, native client, stored nodes requested as extra outputs."""
    key = (version, repr(sorted(wl.items(), key=str)))
    if key in cache:
        return cache[key]
    wl2 = dict(wl)
    wl2['output_names'] = list(wl.get('output_names') or []) + [
        s for s in stores if s not in (wl.get('output_names') or []) and
        s not in spec['params'] and s != spec['disc']]
    ro = Outcome()
    rec = sp.REC.enabled
    sp.REC.enabled = False
    try:
        r = sr.SamplerRun(tape, ro, spec, wl2, sr.REFERENCE_SCHED, quiet=True)
        res = r.sample(wl['n_samples'], **wl['objective'])
    finally:
        sp.REC.enabled = rec
    cache[key] = (res, r, ro)
    return cache[key]


def run(tape, kind):
    out = Outcome()
    elfi = sr.reset_process_state(tape)
    sp.clear_registry()
    root = tempfile.mkdtemp(prefix='verif-c05-', dir=os.environ.get('VERIF_SCRATCH'))
    try:
        _run(tape, out, elfi, root)
    finally:
        gc.collect()
        shutil.rmtree(root, ignore_errors=True)
    return out


def _run(tape, out, elfi, root):
    spec = sp.gen_inference_spec(tape, disc_kinds=('disc', 'dist'), ties=False, extra_shapes=True,
                                 all_rec=True)
    pil = sr.pilot(elfi, spec)
    bs = tape.int('batch_size', 1, 8)
    seed = sr.gen_seed(tape)
    stores, control0 = gen_store_set(tape, spec)
    control = control0
    on_disk = tape.chance('array_pool', 1, 2)
    pool_name = 'pool_%d' % tape.int('pool_name', 0, 9)
    if on_disk:
        pool = elfi.ArrayPool(list(stores), name=pool_name, prefix=root)
    else:
        pool = elfi.OutputPool(list(stores))
    loc = {'prefix': root, 'name': pool_name}      # where the pool folder currently lives
    version = 0
    specs = {0: spec}
    user_model, _ = sp.build_model(elfi, spec, tag='user')
    ref_cache = {}
    abstract = [('disk' if on_disk else 'mem', len(stores), 'sim' in stores,
                 all(p in stores for p in spec['params']), control)]
    held_max = 0          # number of batches the pool should hold (0..held_max-1)
    held = {}             # per store: batches it should hold (only runs whose net contains it)
    saved_held = [None]   # what the pool's pickles say (state at the last save()/close())
    saved_max = [0]
    abandoned = []        # handles of 'processes' that ended without close()
    forced_ops = []
    reused = False
    nsteps = tape.int('n_steps', 2, 5)
    out.sample = {'spec': sp.describe_spec(spec), 'stores': list(stores),
                  'negative_control': control, 'pool': 'ArrayPool' if on_disk else 'OutputPool',
                  'batch_size': bs, 'history': []}

    # batch i of a pool must mean the same thing in every run that shares the pool: true for
    # Rejection (inputs of batch i are prior draws, a function of (seed, i) only); for SMC the
    # inputs of later-round batches are proposals that depend on the whole configuration, so
    # SMC histories only rerun the same configuration or extend / shorten its list of rounds
    family = tape.choice('family', ['rejection', 'rejection', 'smc'])
    abstract.append((family,))
    smc_base = [None]
    smc_master = [None]

    def gen_wl(method=None):
        method = family
        if method == 'smc' and smc_base[0] is not None:
            return pycopy.deepcopy(smc_base[0])
        if method == 'rejection':
            # extra outputs are tape-chosen per run, so a listed store may be outside the
            # compiled net of one run and inside the net of a later one (stores of unequal length)
            wl = sr.gen_rejection_workload(tape, specs[version], pil, extra_outputs=True,
                                            extras_optional=True)
        else:
            wl = sr.gen_smc_workload(tape, specs[version], pil)
        wl['batch_size'] = bs
        wl['seed'] = seed
        if method == 'smc':
            smc_base[0] = pycopy.deepcopy(wl)
        return wl

    last_wl = None
    tainted = set()       # batch indices whose pool entries were written by an F3 batch
    prev_run = [None]
    step = -1
    while step + 1 < nsteps or forced_ops:
        step += 1
        if step > 12:
            break
        cur_spec = specs[version]
        cur_stores = [s for s in pool.stores]
        if step == 0:
            op = 'run'
        else:
            op = tape.choice('op', ['run', 'rerun_same', 'rerun_larger', 'rerun_smaller',
                                    'remove_store', 'replace_node', 'reopen', 'run',
                                    'remove_last_batch', 'clear_pool', 'add_store'] +
                             (['reopen', 'rerun_larger', 'abandon_open', 'abandon_open',
                               'close_open'] if on_disk else []))
        if forced_ops:
            # risky order on purpose: save, extend, end the process without close, reopen, extend
            op = forced_ops.pop(0)
        force_how = None
        same_obj = (op == 'rerun_same_object')
        if same_obj:
            op = 'rerun_same'
        if op == 'abandon_open':
            op, force_how = 'reopen', 'abandon_open'
        if op == 'close_open':
            op, force_how = 'reopen', 'close_open'
        if op == 'remove_store':
            if len(cur_stores) <= 1:
                continue
            victim = tape.choice('victim', cur_stores)
            if on_disk and pool.has_context and tape.chance('store_set_changes_between_saves',
                                                            1, 2):
                # save, change the store set, close, open: what the second save writes must
                # describe the pool as it is then
                pool.save()
                out.ev('P save')
                out.sample['history'].append('save')
                abstract.append(('save',))
                forced_ops.append('close_open')
                out.probes['store_set_changed_between_saves'] += 1
            saved_held[0] = None      # the pickles on disk still list the removed store
            st = pool.remove_store(victim)
            if hasattr(st, 'close'):
                st.close()
            out.ev('P remove_store %s' % victim)
            out.sample['history'].append('remove_store(%s)' % victim)
            abstract.append(('remove_store',))
            continue
        if op == 'replace_node' and family == 'smc':
            op = 'rerun_larger'
        if op in ('remove_last_batch', 'clear_pool'):
            # pool-level deletion: the next run must simply simulate those batches again
            if not pool.has_context or not any(held.values()) or \
                    any(st_ is None for st_ in pool.stores.values()):
                # (remove_batch / clear raise on a listed store that was never created - a node
                # outside every compiled net so far; observed, not judged: C05 is silent on it)
                continue
            if op == 'clear_pool' and on_disk and not all(held.get(s_, 0) for s_ in pool.stores):
                # (clearing an on-disk store that was never written raises 'must be initialized
                # before it can be truncated'; C06 speaks about initialised stores only)
                continue
            saved_held[0] = None
            if op == 'clear_pool':
                pool.clear()
                tainted.clear()
                held = {s_: 0 for s_ in held}
            else:
                last = max(held.values()) - 1
                pool.remove_batch(last)
                tainted.discard(last)
                held = {s_: (n_ - 1 if n_ - 1 == last else n_) for s_, n_ in held.items()}
            held_max = max(held.values()) if held else 0
            for s_ in pool.stores:
                n_ = len(pool.stores[s_]) if pool.stores[s_] is not None else 0
                if n_ != held.get(s_, 0) and not control:
                    out.violate('pool-content', 'batch-count-after-' + op, store=s_, holds=n_,
                                expected=held.get(s_, 0), step=step)
                    return
            out.ev('P %s' % op)
            out.sample['history'].append(op)
            abstract.append((op,))
            out.probes['pool_' + op] += 1
            continue
        if op == 'add_store':
            # a store for one more node of the stated form is added to a pool in use; it starts
            # empty while the others hold batches
            # (on disk, remove_store leaves the node's .npy behind and a later add_store of the
            # same name re-attaches to that file, whatever it holds; only nodes without such a
            # left-over file are added - the statement is about stores the pool made itself)
            cands = [x for x in ['sim'] + sorted(descendants(cur_spec, 'sim'))
                     if x not in pool.stores and not (
                         on_disk and pool.path and
                         os.path.exists(os.path.join(pool.path, x + '.npy')))]
            if not cands or not pool.has_context:
                continue
            node_ = tape.choice('add_store_node', cands)
            saved_held[0] = None
            pool.add_store(node_)
            held[node_] = 0
            out.ev('P add_store %s' % node_)
            out.sample['history'].append('add_store(%s)' % node_)
            abstract.append(('add_store',))
            out.probes['pool_add_store'] += 1
            if family == 'rejection' and not forced_ops and \
                    tape.chance('then_same_sampler_object', 1, 2):
                # the sampler object that was used before the store was added is used again
                forced_ops.append('rerun_same_object')
            continue
        if op == 'replace_node':
            cands = [n for n in cur_spec['sums']] + [cur_spec['disc']]
            target = tape.choice('replace', cands)
            dead = {target} | descendants(cur_spec, target)
            saved_held[0] = None
            for s in list(pool.stores):
                if s in dead:
                    st = pool.remove_store(s)
                    if hasattr(st, 'close'):
                        st.close()
            if not pool.stores:
                # nothing of the stated form left; a pool without stores is just no pool
                out.ev('P pool emptied by replace')
                break
            new_spec = pycopy.deepcopy(cur_spec)
            node = [n for n in new_spec['nodes'] if n['name'] == target][0]
            version += 1
            if node['kind'] == 'dist':
                node['metric'] = 'cityblock' if node['metric'] != 'cityblock' else 'chebyshev'
                node['kw'] = {}
                tmp = elfi.Distance(node['metric'], *[user_model[p] for p in node['parents']],
                                    model=user_model, name='tmp_replacement')
            else:
                node['cfg'] = dict(node['cfg'], salt=node['cfg'].get('salt', 0) + 0.37 * version)
                newop = sp.RecOp('user/v%d/%s' % (version, target), node['cfg'])
                cls = elfi.Summary if node['kind'] == 'sum' else elfi.Discrepancy
                tmp = cls(newop, *[user_model[p] for p in node['parents']], model=user_model,
                          name='tmp_replacement')
            user_model[target].become(tmp)
            specs[version] = new_spec
            pil_new = sr.pilot(elfi, new_spec)
            pil = pil_new if len(pil_new) else pil
            out.ev('P replace %s (removed stores %s)' % (target, sorted(dead)))
            out.sample['history'].append('replace(%s)' % target)
            abstract.append(('replace', node['kind']))
            out.probes['replaced_downstream_node'] += 1
            continue
        if op == 'reopen':
            if not on_disk or not pool.has_context:
                continue
            before = {s: len(pool.stores[s]) if pool.stores[s] is not None else 0
                      for s in pool.stores}
            how = force_how or tape.choice('reopen_how', ['close_open', 'flush', 'save',
                                                          'abandon_open'])
            if how == 'abandon_open' and saved_held[0] is None:
                how = 'save'
            if how == 'flush':
                pool.flush()
            elif how == 'save':
                pool.save()
                saved_held[0] = dict(held)
                saved_max[0] = held_max
            elif how == 'abandon_open':
                # the process ends without close(): data is durable (flush), but the pool's
                # pickles still say what the last save() said; a new process opens the pool
                pool.flush()
                abandoned.append(pool)
                pool = elfi.ArrayPool.open(loc['name'], prefix=loc['prefix'])
                held = {s_: saved_held[0].get(s_, 0) for s_ in pool.stores}
                held_max = saved_max[0]
                after = {s_: len(pool.stores[s_]) if pool.stores[s_] is not None else 0
                         for s_ in pool.stores}
                if control:
                    held = dict(after)     # negative controls are run, never judged
                elif after != held:
                    out.violate('reopen-equal', 'abandoned', saved=held, after=after)
                    return
                out.probes['pool_abandon_open'] += 1
            else:
                pool.close()
                if tape.chance('pool_folder_moved', 1, 3):
                    # the closed pool folder is moved to another prefix and / or renamed before
                    # it is opened again (open(name, prefix) exists for exactly this); from now
                    # on the pool lives there, and that is where later saves must go
                    mk = tape.choice('move_kind', ['prefix', 'name', 'both'])
                    new = dict(loc)
                    if mk in ('prefix', 'both'):
                        new['prefix'] = os.path.join(root, 'moved%d' % step)
                        os.makedirs(new['prefix'])
                    if mk in ('name', 'both'):
                        new['name'] = '%s_r%d' % (pool_name, step)
                    shutil.move(os.path.join(loc['prefix'], loc['name']),
                                os.path.join(new['prefix'], new['name']))
                    loc.update(new)
                    out.probes['pool_folder_moved_' + mk] += 1
                    if not forced_ops:
                        # use the moved pool: extend it, close it, open it again
                        forced_ops.extend(['rerun_larger', 'close_open'])
                pool = elfi.ArrayPool.open(loc['name'], prefix=loc['prefix'])
                after = {s: len(pool.stores[s]) if pool.stores[s] is not None else 0
                         for s in pool.stores}
                # (an on-disk store that was added but never written cannot be unpickled - its
                # file is empty - and is dropped by open(); it held no batches before or after)
                if {k: v for k, v in after.items() if v} != {k: v for k, v in before.items() if v}:
                    out.violate('reopen-equal', '', before=before, after=after)
                    return
                out.probes['pool_close_open'] += 1
                saved_held[0] = dict(held)
                saved_max[0] = held_max
            out.ev('P %s' % how)
            out.sample['history'].append(how)
            abstract.append((how,))
            continue
        # ---- a sampler run with the pool
        if op in ('rerun_same', 'rerun_larger', 'rerun_smaller') and last_wl is not None \
                and last_wl[1] == version:
            wl = pycopy.deepcopy(last_wl[0])
            if wl['method'] == 'smc' and op != 'rerun_same':
                # every SMC run over the pool uses a PREFIX of one master list of rounds (a
                # list that merely has the same length but another value in some round would
                # give the later rounds other proposals at indices the pool already holds)
                k = list(wl['objective'])[0]
                if smc_master[0] is None:
                    smc_master[0] = list(wl['objective'][k])
                cur = len(wl['objective'][k])
                if op == 'rerun_larger' and cur < 5:
                    if cur == len(smc_master[0]):
                        smc_master[0].append(smc_master[0][-1] if k == 'thresholds' else 0.5)
                    cur += 1
                elif op == 'rerun_smaller' and cur > 1:
                    cur -= 1
                wl['objective'] = {k: list(smc_master[0][:cur])}
            if wl['method'] == 'rejection' and op != 'rerun_same':
                k = list(wl['objective'])[0]
                if k == 'n_sim':
                    delta = tape.int('budget_delta', 1, 30)
                    wl['objective'] = {'n_sim': max(wl['n_samples'], wl['objective']['n_sim'] +
                                                    (delta if op == 'rerun_larger' else -delta))}
                else:
                    wl['n_samples'] = max(1, wl['n_samples'] +
                                          (tape.int('n_delta', 1, 8) if op == 'rerun_larger'
                                           else -tape.int('n_delta', 1, 8)))
        else:
            wl = gen_wl()
        sched = sr.gen_schedule(tape)
        cur_spec = specs[version]
        # refuses-mismatch
        if pool.has_context and tape.chance('try_mismatch', 1, 3):
            other_seed = tape.choice('other_seed', [seed + 1, 0, seed - 1, 2 ** 31 - 1])
            other_bs = tape.choice('other_bs', [bs + 1, max(1, bs - 1), 2 * bs])
            tries = []
            if other_bs != bs:
                tries.append(({'batch_size': other_bs, 'seed': seed}, 'batch_size'))
            if other_seed != seed and other_seed >= 0:
                tries.append(({'batch_size': bs, 'seed': other_seed},
                              'seed-zero' if other_seed == 0 else 'seed'))
            for kw, name in tries:
                try:
                    elfi.Rejection(user_model, cur_spec['disc'], pool=pool, **kw)
                except ValueError:
                    out.probes['refused_mismatch'] += 1
                except Exception as e:
                    out.violate('refuses-mismatch', 'other-exception', which=name,
                                error='%s %s' % (type(e).__name__, str(e)[:100]))
                    return
                else:
                    out.violate('refuses-mismatch', name, which=name)
                    return
        reuse = same_obj and prev_run[0] is not None and prev_run[0]['pool'] is pool and \
            prev_run[0]['version'] == version and family == 'rejection' and \
            wl['method'] == 'rejection'
        if reuse:
            # a second sample() on the SAME sampler object (same context, same compiled net)
            run_ = prev_run[0]['run']
            sched = prev_run[0]['sched']
            run_.req_info.clear()
            run_.consumed, run_.submitted, run_.rounds, run_.errors = [], [], [], []
            sp.REC.reset(run_.backend)
            elfi.set_client(run_.client)
            out.probes['same_sampler_object_again'] += 1
        else:
            sp.REC.reset(None)
            run_ = sr.SamplerRun(tape, out, cur_spec, wl, sched, model=user_model, pool=pool)
        prev_run[0] = {'run': run_, 'pool': pool, 'version': version, 'sched': sched}
        stored_now = list(pool.stores)
        # is the CURRENT store set (removals may have changed it) of the stated form?
        from_sim = [x for x in stored_now if x == 'sim' or x in descendants(cur_spec, 'sim')]
        pstored = [x for x in stored_now if x in cur_spec['params']]
        control = control0 or not from_sim or (0 < len(pstored) < len(cur_spec['params'])) or \
            any(x not in from_sim and x not in pstored for x in stored_now)
        res = run_.sample(wl['n_samples'], **wl['objective'])
        desc = '%s %s n=%d on %s mpb=%s' % (wl['method'], wl['objective'], wl['n_samples'],
                                            sched['facade'], sched['mpb'])
        out.sample['history'].append(desc)
        abstract.append(('run', wl['method'], list(wl['objective'])[0]))
        last_wl = (wl, version)
        if out.inconclusive:
            return
        ref_res, ref_run, ref_out = reference_run(ref_cache, tape, cur_spec, wl, stored_now,
                                                  version)
        if ref_out.inconclusive:
            out.inconclusive = True
            return
        hits = [q for q, info in run_.req_info.items() if info['held']]
        if hits:
            reused = True
            out.probes['pool_hit'] += 1
            if any(set(info['held']) != set(stored_now) for info in run_.req_info.values()
                   if info['held']):
                out.probes['pool_partial_hit'] += 1
        consumed_idx = run_.consumed_indices()
        if consumed_idx and max(consumed_idx) + 1 > held_max and held_max > 0:
            out.probes['rerun_needs_more_batches'] += 1
        params_stored = all(p in stored_now for p in cur_spec['params'])
        # F3's structural predicate, per batch: the pool supplied ALL parameters of a batch but
        # not the simulator (the simulator has no store, or - after add_store('sim') on a pool
        # in use - its store does not reach that far yet)
        f3_reqs = {q for q, info in run_.req_info.items()
                   if info['held'] and 'sim' not in info['held'] and
                   all(p in info['held'] for p in cur_spec['params'])}
        # batches in which exactly that happened (the simulator re-ran on pool-supplied
        # parameters); what such a batch writes into the pool is the finding's output, and a later
        # run that is served those entries inherits it - the history, not the single run, is
        # what the known finding identifies
        f3_bis = {run_.req_info[c['req']]['bi'] for c in sp.REC.calls
                  if c['node'] == 'sim' and c['req'] in f3_reqs}
        served_tainted = any(info['held'] and info['bi'] in tainted
                             for info in run_.req_info.values())
        f3_shape = (params_stored and bool(f3_reqs)) or served_tainted
        tainted |= f3_bis
        # ---- same-as-pool-free
        if res is None or ref_res is None:
            ea = type(ref_run.errors[-1]).__name__ if ref_res is None and ref_run.errors else None
            eb = type(run_.errors[-1]).__name__ if res is None and run_.errors else None
            if ea != eb and not control:
                err = (run_.errors or ref_run.errors)[-1]
                sig = 'raises-' + str(eb)
                if eb == 'KeyError' and 'operation' in str(err):
                    sig = 'override-of-pool-supplied-node'
                elif eb == 'LinAlgError' and ea is None and f3_shape and any(
                        c['node'] == 'sim' and (run_.req_info.get(c['req']) or {}).get('held')
                        for c in sp.REC.calls):
                    # F3 again, seen through its consequence: the parameters came from the pool,
                    # the simulator re-ran with other noise in a pool-hit batch, and the (other)
                    # population happens to be degenerate (1-2 particles) where the pool-free
                    # one is not; only this data-dependent numerical failure is mapped, every
                    # other exception keeps its own signature
                    sig = 'params-stored+stochastic-node-reran'
                out.violate('same-as-pool-free', sig, step=step, with_pool=eb, without=ea,
                            msg=str(err)[:200], stores=stored_now, method=wl['method'])
            return
        fa = sr.sample_fingerprint(ref_res)
        fb = sr.sample_fingerprint(res)

        def restrict(fp, keys):
            fp = dict(fp)
            fp['outputs'] = {k: v for k, v in fp['outputs'].items() if k in keys}
            if 'populations' in fp:
                fp['populations'] = [restrict(p, keys) for p in fp['populations']]
            return fp
        keys = set(fb['outputs'])
        d = sr.fp_diff(restrict(fa, keys), restrict(fb, keys))
        # which stochastic nodes ran in tasks whose index the pool held
        reran = set()
        for c in sp.REC.calls:
            info = run_.req_info.get(c['req'])
            if info and info['held'] and c['kind'] in ('sim', 'prior'):
                reran.add(c['node'])
        if d and not control:
            sig = ''
            if (f3_shape and 'sim' in reran) or served_tainted:
                sig = 'params-stored+stochastic-node-reran'
            out.violate('same-as-pool-free', sig, step=step, diff=d, stores=stored_now,
                        method=wl['method'], reran=sorted(reran))
            return
        if control:
            out.probes['negative_control_run'] += 1
            if d:
                out.probes['negative_control_differs'] += 1
                return
        # ---- no-resimulation (the observed twin of a summary runs the same callable on the
        # observed data in every batch; that is not a re-computation of the stored node)
        sim_obs = sp.dg([n for n in cur_spec['nodes'] if n['name'] == 'sim'][0]['observed'])

        def is_twin(c):
            return c['kind'] == 'sum' and c['pos'] == [sim_obs] and c['bs'] is None

        for c in sp.REC.calls:
            info = run_.req_info.get(c['req'])
            if info and c['node'] in info['held'] and not is_twin(c):
                out.violate('no-resimulation', '', step=step, node=c['node'], batch_index=info['bi'],
                            held=list(info['held']))
                return
        # ---- pool-content
        if not control:
            held_max = max(held_max, (max(consumed_idx) + 1) if consumed_idx else 0)
            ref_batches = {bi: b for (_, bi, b) in ref_run.consumed}
            in_net = set(cur_spec['params']) | {cur_spec['disc']} | set(wl.get('output_names') or [])
            grew = True
            while grew:
                grew = False
                for n_ in cur_spec['nodes']:
                    if n_['name'] in in_net:
                        for p_ in (n_.get('parents') or n_.get('args') or []):
                            if isinstance(p_, str) and p_ not in in_net:
                                in_net.add(p_)
                                grew = True
            this_run = (max(consumed_idx) + 1) if consumed_idx else 0
            for s in pool.stores:
                if s in in_net:
                    held[s] = max(held.get(s, 0), this_run)
                # a store that is not part of this inference's compiled net cannot be filled by
                # it and keeps what earlier runs gave it
                st = pool.stores[s]
                n = len(st) if st is not None else 0
                if n != held.get(s, 0):
                    out.violate('pool-content', 'batch-count', store=s, holds=n,
                                expected=held.get(s, 0), step=step, in_net=s in in_net)
                    return
            if len({held.get(s, 0) for s in pool.stores}) > 1:
                out.probes['stores_of_unequal_length'] += 1
            for bi in sorted(ref_batches):
                got = pool.get_batch(bi)
                for s in pool.stores:
                    if s not in ref_batches[bi] or s not in in_net or bi >= held.get(s, 0):
                        continue
                    if s not in got or not sr.arrays_equal(np.asarray(got[s]),
                                                           np.asarray(ref_batches[bi][s])):
                        # F3 can also surface only here: the re-simulated value of a node that
                        # was missing from a pool-hit batch is stored, but the returned rows
                        # happen to come from other batches
                        sig = 'params-stored+stochastic-node-reran' \
                            if ((f3_shape and 'sim' in reran) or bi in tainted) else 'value'
                        out.violate('pool-content', sig, store=s, batch_index=bi, step=step,
                                    stores=stored_now, reran=sorted(reran))
                        return
        run_.drain()
        if on_disk and pool.has_context and tape.chance('save_after_run', 1, 3):
            pool.save()
            saved_held[0] = dict(held)
            saved_max[0] = held_max
            out.ev('P save')
            if family == 'rejection' and tape.chance('stale_pickle_script', 1, 2):
                forced_ops[:] = ['rerun_larger', 'abandon_open', 'rerun_larger', 'rerun_same']
    out.abstract = tuple(map(tuple, abstract))
    out.nontrivial = reused and out.probes.get('speculative_submit', 0) > 0
    if on_disk:
        try:
            pool.close()
        except Exception:
            pass

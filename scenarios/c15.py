"""C15 - batch sub-seeds are distinct and depend only on (seed, index).

(i)  kind 'exh'  : exhaustive for high in 1..8 - every seed of a fixed set x every index <
                   high x every index sequence up to a bounded length sharing one cache.
     kind 'hist' : sampled index histories (increasing, repeated, decreasing, jumping) on one
                   shared cache for large ranges (2**31 and a few small ones).
(ii) kind 'sim'  : monitor inside simulated sampler runs - the index sequence requested from
                   the shared context cache is schedule generated (speculation, cancel, rewind,
                   continued SMC); every generator handed to a batch must equal
                   RandomState(ref_sub_seed(seed, i)).
"""
import itertools

import numpy as np

from simkit import simrun as sr
from simkit import spec as sp
from simkit.env import import_elfi
from simkit.runner import Outcome

PROPERTY = 'C15'
LEVEL = 'exploration'
SEEDS_EXH = list(range(24))
PLAN = {'quick': [('exh', 8 * len(SEEDS_EXH)), ('hist', 6000), ('sim', 1000), ('ext', 500)],
        'thorough': [('exh', 8 * len(SEEDS_EXH)), ('hist', 600000), ('sim', 100000),
                     ('ext', 50000)]}
TIMEOUT = {'quick': 900, 'thorough': 6 * 3600}
RECHECK = 100
FIXED_KINDS = ('exh',)   # the exhaustive part is never scaled down
NO_RUN_ALARM = True      # this scenario uses SIGALRM itself (unservable indices may loop forever)
RULE = ('exh: for high in 1..8 and 24 master seeds, ALL indices < high and ALL index sequences '
        'of length <= 4 (<= 3 for high >= 6) sharing one cache (collisions in the draw stream '
        'are forced), plus unservable indices (== high, > high, negative, numpy integers a '
        'multiple of 2**32 away from a valid index, fractional) - exhaustive for that '
        'bounded space. hist: sampled histories of <= 40 indices (increasing / repeated / '
        'decreasing / jumping, tape-chosen; indices up to 500) on one shared cache, high in '
        '{2**31, 2**32, 2**16+1, 5000, 1000, 300, 50, 12}. '
        'sim: real sampler runs under the simulated scheduler; every submitted net\'s generator '
        'is compared (full state) with RandomState(ref_sub_seed(seed, batch_index)). ext: the '
        'per-run {seed} ELFI derives for the rows of a vectorized external operation (subprocess '
        'answered in-process) - every run must receive get_sub_seed(first state word of the batch '
        'generator at that moment, index_in_batch), whatever was drawn from the generator between '
        'the runs (0 / 10 / 700 / 1300 normals, i.e. also across a renewal of the Mersenne-Twister '
        'block). distinct = '
        '(kind, high, index sequence pattern) resp. abstract schedule; non-trivial = the '
        'history contains a repeated or decreasing index (cache must restart) or, for sim, a '
        'cancelled and re-submitted batch index')
COMPONENTS = {
    'real': ['elfi.utils.get_sub_seed', 'elfi.loader.RandomStateLoader',
             'ComputationContext.caches[sub_seed]', 'samplers + BatchHandler + clients (sim kind)',
             'elfi.tools.vectorize / external_operation / prepare_seed (ext kind)'],
    'stub': ['SimBackend under the clients (sim kind)', 'numpy.Inf alias shim',
             'subprocess module as seen by elfi.model.tools -> in-process echo (ext kind)'],
}
ASSUMPTIONS = [
    'reference: the (i+1)-th distinct value of RandomState(seed).randint(high, dtype=uint32)\'s '
    'stream, implemented independently of elfi.utils',
    'a TypeError/ValueError/IndexError for a negative or too large index counts as "rejected"',
]


class _Hang(Exception):
    pass


class _deadline:
    """An unservable index that is not rejected makes get_sub_seed loop forever."""

    def __init__(self, seconds):
        self.seconds = seconds

    def __enter__(self):
        import signal

        def on_alarm(signum, frame):
            raise _Hang()
        self.prev = signal.signal(signal.SIGALRM, on_alarm)
        signal.alarm(self.seconds)

    def __exit__(self, *a):
        import signal
        signal.alarm(0)
        signal.signal(signal.SIGALRM, self.prev)
        return False


def call(get_sub_seed, seed, i, high, cache):
    kw = {}
    if high is not None:
        kw['high'] = high
    if cache is not None:
        kw['cache'] = cache
    return int(get_sub_seed(seed, i, **kw))


def check_sequence(out, get_sub_seed, seed, high, seq, ref):
    cache = {}
    for pos, i in enumerate(seq):
        try:
            v = call(get_sub_seed, seed, i, high, cache)
        except Exception as e:
            out.violate('cache-independent', 'raises', seed=seed, high=high, seq=[int(x) for x in seq[:pos + 1]],
                        error='%s: %s' % (type(e).__name__, str(e)[:100]))
            return False
        if v != ref[i]:
            clause = 'history-independent' if pos > 0 else 'cache-independent'
            out.violate(clause, '', seed=seed, high=high, seq=[int(x) for x in seq[:pos + 1]], got=v,
                        expected=ref[i])
            return False
    return True


def ref_values(seed, high, upto):
    """Independent reference for indices 0..upto-1 (one pass over the stream)."""
    rs = np.random.RandomState(seed)
    seen = []
    ss = set()
    while len(seen) < upto:
        v = int(rs.randint(high, dtype='uint32'))
        if v not in ss:
            ss.add(v)
            seen.append(v)
    return seen


def run_exh(tape, out, idx):
    elfi = import_elfi()
    from elfi.utils import get_sub_seed
    high = idx // len(SEEDS_EXH) + 1
    seed = SEEDS_EXH[idx % len(SEEDS_EXH)]
    ref = ref_values(seed, high, high)
    n = 0
    # no cache, every index
    for i in range(high):
        try:
            v = call(get_sub_seed, seed, i, high, None)
        except Exception as e:
            out.violate('equals-reference', 'raises', seed=seed, high=high, index=i,
                        error=str(e)[:100])
            return
        n += 1
        if v != ref[i]:
            out.violate('equals-reference', '', seed=seed, high=high, index=i, got=v,
                        expected=ref[i])
        if not (0 <= v < high):
            out.violate('in-range', '', seed=seed, high=high, index=i, got=v)
    if len(set(ref)) != high:
        raise RuntimeError('reference not injective')
    vals = [call(get_sub_seed, seed, i, high, None) for i in range(high)]
    if len(set(vals)) != len(vals):
        out.violate('distinct', '', seed=seed, high=high, values=vals)
    # unservable indices
    bads = [high, high + 1, high + 7, -1, -2]
    # indices that only LOOK servable after a narrowing conversion: numpy integers a multiple
    # of 2**32 away from a valid index, and fractional indices
    k = seed % high
    bads += [np.int64(2 ** 32 + k), np.uint64(2 ** 32 + k), np.int64(5 * 2 ** 32 + k),
             np.int64(k - 2 ** 32), np.int64(high), np.int64(-1), k + 0.5, np.float64(k + 0.25)]
    for bad in bads:
        for cache in (None, {}):
            try:
                with _deadline(5):
                    v = call(get_sub_seed, seed, bad, high, cache)
            except (ValueError, TypeError, IndexError, OverflowError):
                n += 1
                continue
            except _Hang:
                out.violate('rejects-unservable', 'hangs', seed=seed, high=high,
                            index=repr(bad))
                return
            what = 'negative' if bad < 0 else ('fractional' if isinstance(
                bad, (float, np.floating)) else 'too-large')
            if isinstance(bad, np.integer):
                what += '-numpy-integer'
            out.violate('rejects-unservable', what, seed=seed, high=high, index=repr(bad),
                        returned=v)
    # every index sequence of bounded length on one shared cache
    maxlen = 4 if high < 6 else 3
    for ln in range(1, maxlen + 1):
        for seq in itertools.product(range(high), repeat=ln):
            n += 1
            if not check_sequence(out, get_sub_seed, seed, high, seq, ref):
                return
    # default range, with and without cache, equals the 2**31 reference
    ref31 = ref_values(seed, 2 ** 31, 6)
    for i in range(6):
        if call(get_sub_seed, seed, i, None, None) != ref31[i]:
            out.violate('equals-reference', 'default-high', seed=seed, index=i)
    out.stats['exhaustive_cases'] += n
    out.abstract = ('exh', high, seed)
    out.nontrivial = high >= 2
    out.sample = {'kind': 'exh', 'high': high, 'seed': seed, 'sequences_checked': n}
    out.ev('exh high=%d seed=%d cases=%d' % (high, seed, n))


# Master seeds whose DEFAULT-range stream (randint(2**31)) repeats a value within its first 260
# draws: (seed, first position, second position).  Found by brute force over seeds 0..1.6e6
# (about 1 seed in 47 000); each entry is re-verified against the independent reference when it
# is used.  With these the dedupe logic is exercised on the range ELFI actually uses, where a
# sampled seed practically never collides.
EARLY_COLLISIONS = [(20036, 152, 205),
                    (104366, 75, 238),
                    (105820, 116, 258),
                    (158314, 80, 202),
                    (227409, 11, 169),
                    (238554, 169, 215),
                    (258965, 77, 166),
                    (291714, 15, 162),
                    (295915, 183, 236),
                    (558812, 84, 194),
                    (561236, 85, 207),
                    (582518, 8, 205),
                    (600688, 149, 231),
                    (719661, 16, 132),
                    (761212, 29, 92),
                    (804565, 184, 234),
                    (859393, 108, 112),
                    (943478, 228, 255),
                    (1011388, 64, 67),
                    (1058164, 91, 142),
                    (1069036, 60, 214),
                    (1069393, 125, 194),
                    (1087310, 220, 224),
                    (1096082, 129, 188),
                    (1118086, 10, 61),
                    (1246392, 75, 223),
                    (1296646, 100, 224),
                    (1301859, 130, 173),
                    (1366110, 54, 246),
                    (1413966, 78, 237),
                    (1418327, 89, 123),
                    (1461054, 82, 87),
                    (1534556, 191, 234),
                    (1543045, 60, 121)]


def gen_index_history(tape, high, maxlen=40):
    n = tape.int('hist_len', 2, maxlen)
    top = min(high - 1, tape.choice('index_top', [5, 20, 60, 200, 500]))
    pattern = tape.choice('pattern', ['increasing', 'repeated', 'decreasing', 'jumping', 'mixed'])
    seq = []
    cur = tape.int('start', 0, top)
    for _ in range(n):
        p = pattern if pattern != 'mixed' else tape.choice('p', ['increasing', 'repeated',
                                                                 'decreasing', 'jumping'])
        if p == 'increasing':
            cur = min(top, cur + tape.int('inc', 1, 3))
        elif p == 'decreasing':
            cur = max(0, cur - tape.int('dec', 1, 3))
        elif p == 'jumping':
            cur = tape.int('jump', 0, top)
        seq.append(cur)
    return pattern, seq


def run_hist(tape, out):
    import_elfi()
    from elfi.utils import get_sub_seed
    high = tape.choice('high', [2 ** 31, 2 ** 31, 1000, 50, 12, 2 ** 32, 2 ** 16 + 1, 5000, 300])
    seed = tape.int('seed', 0, 2 ** 31 - 1)
    pattern, seq = gen_index_history(tape, high)
    special = []
    if tape.chance('early_collision_seed', 1, 6):
        seed, ci, cj = EARLY_COLLISIONS[tape.int('collision_entry', 0, len(EARLY_COLLISIONS) - 1)]
        high = 2 ** 31
        raw = np.random.RandomState(seed).randint(2 ** 31, size=cj + 1, dtype='uint32')
        if raw[ci] != raw[cj]:
            raise RuntimeError('EARLY_COLLISIONS entry %r does not collide (harness table)' % seed)
        # the indices around the repeated draw, in tape-chosen order, inside the history
        special = tape.shuffle('collision_indices', [ci, cj - 1, cj, cj + 1])
        at = tape.int('collision_at', 0, len(seq))
        seq = seq[:at] + special + seq[at:]
        pattern = 'collision+' + pattern
        out.probes['early_collision_seed_default_range'] += 1
    ref = ref_values(seed, high, max(seq) + 1)
    if tape.chance('numpy_typed_indices', 1, 4):
        # batch indices often come out of numpy (arange, argmax ...): same seeds
        ty = tape.choice('index_type', [np.int64, np.int32, np.uint32, np.intp])
        typed = [ty(i) for i in seq]
        out.probes['numpy_typed_indices'] += 1
    else:
        typed = seq
    ok = check_sequence(out, get_sub_seed, seed, high if high != 2 ** 31 or tape.chance(
        'explicit_high', 1, 2) else None, typed, ref)
    if ok:
        # fresh cache per request and no cache at all give the same values
        for i in sorted(set(seq))[:8] + sorted(special):
            a = call(get_sub_seed, seed, i, high, {})
            b = call(get_sub_seed, seed, i, high, None)
            if a != ref[i] or b != ref[i]:
                out.violate('cache-independent', 'fresh', seed=seed, high=high, index=i,
                            with_fresh_cache=a, without=b, expected=ref[i])
            if not (0 <= a < high):
                out.violate('in-range', '', seed=seed, high=high, index=i, got=a)
    restarts = sum(1 for a, b in zip(seq, seq[1:]) if b <= a)
    out.abstract = ('hist', high, pattern, tuple(np.sign(np.diff(seq)).astype(int).tolist()))
    out.nontrivial = restarts > 0
    out.probes['cache_restart_needed'] += restarts
    out.sample = {'kind': 'hist', 'high': high, 'seed': seed, 'pattern': pattern, 'indices': seq}
    out.ev('hist high=%d seed=%d %s %s' % (high, seed, pattern, seq))


class RefStream:
    """Incremental independent reference for one master seed (sim kind)."""

    def __init__(self, seed):
        self.rs = np.random.RandomState(seed)
        self.vals = []
        self.seen = set()

    def get(self, i):
        while len(self.vals) <= i:
            v = int(self.rs.randint(2 ** 31, dtype='uint32'))
            if v not in self.seen:
                self.seen.add(v)
                self.vals.append(v)
        return self.vals[i]


def install_seed_monitor(out, run_, seed):
    """Check the generator inside every net the client is asked to run."""
    ref = RefStream(seed)
    client = run_.client
    mon = run_.monitor
    inner = client.apply
    seen_seed = {}
    requested = []

    def apply(kallable, *args, **kwargs):
        bi = mon.current_bi
        if args and hasattr(args[0], 'nodes') and '_random_state' in args[0].nodes and \
                bi is not None:
            rs = args[0].nodes['_random_state'].get('output')
            if isinstance(rs, np.random.RandomState):
                exp = np.random.RandomState(ref.get(bi))
                a, b = rs.get_state(), exp.get_state()
                same = a[0] == b[0] and np.array_equal(a[1], b[1]) and a[2:] == b[2:]
                if not same:
                    out.violate('generator-equals-reference', '', batch_index=bi, seed=seed)
                key = sp.rs_digest(rs)
                for obi, okey in seen_seed.items():
                    if obi != bi and okey == key:
                        out.violate('distinct', 'sim', a=obi, b=bi)
                if bi in seen_seed:
                    out.probes['index_resubmitted'] += 1
                seen_seed[bi] = key
                requested.append(bi)
        return inner(kallable, *args, **kwargs)
    client.apply = apply
    return requested


def run_sim(tape, out):
    from scenarios import c04
    elfi = sr.reset_process_state(tape)
    sp.clear_registry()
    spec = sp.gen_inference_spec(tape, disc_kinds=('disc', 'dist'), ties=False)
    pil = sr.pilot(elfi, spec)
    wl = c04.gen_workload(tape, spec, pil)
    sched = sr.gen_schedule(tape)      # native included: it executes in-process, by reference
    sp.REC.reset(None)
    run_ = sr.SamplerRun(tape, out, spec, wl, sched, quiet=True)
    requested = install_seed_monitor(out, run_, wl['seed'])
    c04.do_calls(run_, wl)
    out.abstract = ('sim', wl['method'], tuple(requested))
    out.nontrivial = out.probes.get('index_resubmitted', 0) > 0
    out.sample = {'kind': 'sim', 'workload': wl, 'schedule': sched,
                  'indices_requested_from_cache': requested[:60]}


def run_ext(tape, out):
    elfi = sr.reset_process_state(tape)
    sp.clear_registry()
    sp.REC.reset(None)
    m = elfi.ElfiModel(name='ext')
    t = elfi.Prior('uniform', 0, 1, model=m, name='t')
    ndraws = tape.choice('noise_draws_per_run', [0, 0, 10, 700, 1300])
    op = elfi.tools.vectorize(elfi.tools.external_operation(
        'echo {0} {seed}', process_result=sp.make_noisy_result(ndraws),
        prepare_inputs=sp.ext_record))
    sim = elfi.Simulator(op, t, model=m, name='sim')
    uses_meta = tape.chance('uses_meta', 3, 4)
    if uses_meta:
        sim.uses_meta = True
    bs = tape.int('batch_size', 1, 8)
    seed = sr.gen_seed(tape)
    n_gen = tape.int('n_generate', 1, 3)
    for g in range(n_gen):
        del sp.EXT_LOG[:]
        res = m.generate(bs, outputs=['sim'], seed=seed)
        log = list(sp.EXT_LOG)
        if len(log) != bs:
            raise RuntimeError('external operation ran %d times for %d rows' % (len(log), bs))
        arr = np.asarray(res['sim']).reshape(bs, -1)
        for row, e in enumerate(log):
            idx = e['index_in_batch'] if uses_meta else None
            if uses_meta and idx != row:
                out.violate('equals-reference', 'ext-index-in-batch', row=row, got=idx)
                return
            exp = sp.ref_sub_seed(e['master'], idx or 0)
            if e['seed'] is None or int(e['seed']) != exp or int(arr[row][1]) != exp:
                out.violate('history-independent', 'ext-run-seed', row=row, master=e['master'],
                            got=None if e['seed'] is None else int(e['seed']),
                            in_output=int(arr[row][1]), expected=exp, noise_draws=ndraws,
                            uses_meta=uses_meta)
                return
        masters = {e['master'] for e in log}
        if uses_meta and len(masters) == 1 and len({int(e['seed']) for e in log}) != bs:
            out.violate('distinct', 'ext-rows', seeds=[int(e['seed']) for e in log])
            return
        if len(masters) > 1:
            out.probes['generator_block_renewed_between_runs'] += 1
    out.stats['external_runs'] += bs * n_gen
    out.abstract = ('ext', bs, ndraws, uses_meta)
    out.nontrivial = ndraws >= 700 and bs >= 2
    out.sample = {'kind': 'ext', 'batch_size': bs, 'noise_draws_per_run': ndraws,
                  'uses_meta': uses_meta}
    out.ev('ext bs=%d draws=%d meta=%s' % (bs, ndraws, uses_meta))


def run(tape, kind):
    out = Outcome()
    if kind == 'ext':
        run_ext(tape, out)
        return out
    if kind == 'exh':
        run_exh(tape, out, tape.index % (8 * len(SEEDS_EXH)))
    elif kind == 'hist':
        run_hist(tape, out)
    else:
        run_sim(tape, out)
    return out

"""C14 - editing, copying and saving a model preserves its structure and meaning.

No scheduler and no fault exist here; what exists is several parties sharing structure: the
user's model, every copy() and every save()/load() image.  Seeded operation histories over a
*set* of live models, checked after every step against a reference graph model (plain dicts)
per party.
"""
import copy as pycopy
import os
import shutil
import tempfile

import networkx as nx
import numpy as np

from simkit import simrun as sr
from simkit import spec as sp
from simkit.runner import Outcome

PROPERTY = 'C14'
LEVEL = 'exploration'
PLAN = {'quick': [('edit', 15000)], 'thorough': [('edit', 1500000)]}
TIMEOUT = {'quick': 900, 'thorough': 6 * 3600}
RULE = ('each run: a seeded history of 4-16 operations over a set of live models (add '
        'Constant/Operation/Prior/Simulator/Summary/Discrepancy/Distance with explicit, '
        'name* or no names (auto-named private `_class_xxxx` nodes), positional node and constant parents; named (keyword) edges via add_edge; a.become(b) where defined; '
        'remove_node of leaves and (1 in 4) of inner nodes; set parameter_names; set/delete observed data; set uses_meta; '
        'copy(); save()+load()), each operation applied to a tape-chosen party; after every '
        'step EVERY party is compared with its own reference graph (canonical form with private '
        'constants inlined by value) and its seeded generate() digest. distinct = sequence of '
        '(operation kind, party role); non-trivial = at least two parties were alive and one of '
        'them was mutated after the copy/load that created the other')
COMPONENTS = {
    'real': ['ElfiModel.update_node/remove_node/copy/save/load/parameter_names/observed',
             'GraphicalModel', 'NodeReference.become and constructors', 'generate() through '
             'compiler/loaders/Executor (native client)', 'pickle'],
    'stub': ['uuid -> counter (random node names)', 'numpy alias shim'],
}
ASSUMPTIONS = [
    'become(b) only where defined: b in the same model, childless, neither ancestor nor '
    'descendant of a; removing an inner node means: its children lose that parent and keep the '
    'order of the remaining ones',
    'AdaptiveDistance nodes are excluded: their adaptation lists are aliased between copies '
    'on purpose and change through inference, not editing',
    'a generate() that raises is compared by exception type (graphs whose observed data '
    'depends on a stochastic node are rejected by design)',
]

_uid = [0]


class RefModel:
    """Plain-dict reference of one party."""

    def __init__(self):
        self.nodes = {}        # name -> dict(cls, op, pos=[('n',name)|('c',digest)], param, meta)
        self.observed = {}     # name -> digest
        self.pending = set()   # observed data declared for nodes that do not exist yet

    def clone(self):
        return pycopy.deepcopy(self)

    def children(self, name):
        return [n for n, d in self.nodes.items()
                if ('n', name) in d['pos'] or name in d.get('named', {}).values()]

    def ancestors(self, name):
        out = set()
        stack = [name]
        while stack:
            x = stack.pop()
            for k, p in list(self.nodes[x]['pos']) + [('n', q) for q in
                                                      self.nodes[x].get('named', {}).values()]:
                if k == 'n' and p not in out:
                    out.add(p)
                    stack.append(p)
        return out

    def descendants(self, name):
        return {n for n in self.nodes if name in self.ancestors(n)}

    def remove(self, n):
        """Remove n; the children lose that parent; private (underscore-named) positional
        parents that are left with no edge at all go with it (GraphicalModel.remove_node)."""
        pars = [p for k, p in self.nodes[n]['pos'] if k == 'n']
        self.nodes.pop(n)
        self.observed.pop(n, None)
        for d_ in self.nodes.values():
            if ('n', n) in d_['pos']:
                if d_['pos'][-1] != ('n', n) or d_['pos'].count(('n', n)) > 1:
                    d_['gapped'] = True
                d_['pos'] = [e for e in d_['pos'] if e != ('n', n)]
            for k_ in [k_ for k_, v_ in d_.get('named', {}).items() if v_ == n]:
                del d_['named'][k_]
        self.drop_isolated_private(pars)

    def drop_isolated_private(self, names):
        for p in names:
            if p.startswith('_') and p in self.nodes and not self.children(p) and \
                    not self.nodes[p]['pos'] and not self.nodes[p].get('named'):
                self.remove(p)

    def canon(self):
        return ({n: (d['cls'], d['op'], tuple(d['pos']), bool(d['param']), bool(d['meta']),
                     tuple(sorted(d.get('named', {}).items())))
                 for n, d in self.nodes.items()}, dict(self.observed))

    def parameter_names(self):
        return sorted(n for n, d in self.nodes.items() if d['param'])


GAPS = set()


def is_private_const(model, n, known=()):
    """Underscore names are ELFI's private nodes: the constants it creates for literal parents
    (`_<child>_<random>`) and nodes that were created without a name (auto-named
    `_simulator_<random>`, ...).  `known` = the auto-named nodes the reference model holds (one
    of them may have become a Constant, so the class alone does not tell them apart)."""
    return n.startswith('_') and n not in known and \
        model.get_state(n)['attr_dict']['_class'].__name__ == 'Constant'


def real_canon(model, known=()):
    """Canonical form of a real ElfiModel read through its public surface."""
    net = model.source_net
    nodes = {}
    for n in model.nodes:
        if is_private_const(model, n, known):
            continue
        st = model.get_state(n)['attr_dict']
        cls = st['_class'].__name__
        if cls == 'Constant':
            op = 'const:' + sp.dg(st['_output'])
        elif cls == 'Prior':
            op = 'prior:' + str(st['distribution'])
        elif cls == 'Distance':
            o = st.get('_operation')
            try:
                op = 'distance:' + str(o.args[0].keywords.get('metric'))
            except Exception:
                op = 'distance:?'
        else:
            o = st.get('_operation')
            op = getattr(o, 'key', repr(type(o)))
        pos = []
        for p in model.get_parents(n):
            if is_private_const(model, p, known):
                pst = model.get_state(p)['attr_dict']
                pos.append(('c', sp.dg(pst['_output'])))
            else:
                pos.append(('n', p))
        # positional parameters must be 0..k-1 (a gap is legitimate only where an inner parent
        # node was removed; the caller knows which nodes those are)
        params = sorted(net[u][n]['param'] for u in net.predecessors(n)
                        if isinstance(net[u][n]['param'], int))
        if params != list(range(len(params))):
            GAPS.add((id(model), n))
        named = tuple(sorted((net[u][n]['param'], u) for u in net.predecessors(n)
                             if not isinstance(net[u][n]['param'], int)))
        nodes[n] = (cls, op, tuple(pos), '_parameter' in st, bool(st.get('_uses_meta', False)),
                    named)
    obs = {k: sp.dg(v) for k, v in model.observed.items()}
    return nodes, obs


def consistent(model, known=(), pending=()):
    net = model.source_net
    if not nx.is_directed_acyclic_graph(net):
        return 'cycle'
    for u, v in net.edges:
        if u not in net.nodes or v not in net.nodes or 'attr_dict' not in net.nodes[u] \
                or 'attr_dict' not in net.nodes[v]:
            return 'dangling-edge'
    # private constants must have a child; observed data must belong to a node
    for n in net.nodes:
        if net.degree(n) == 0 and is_private_const(model, n, known):
            return 'orphan-private-constant'
    for k in model.observed:
        if k not in net.nodes and k not in pending:
            return 'observed-of-missing-node'
    return None


def gen_digest(elfi, model, seed):
    outs = sorted(n for n in model.nodes if not n.startswith('_'))
    if not outs:
        return 'empty'
    try:
        res = model.generate(3, outputs=outs, seed=seed)
    except Exception as e:
        return 'raises:' + type(e).__name__
    return sp.dg({k: np.asarray(v) for k, v in res.items()})


class Party:
    def __init__(self, model, ref, role):
        self.model = model
        self.ref = ref
        self.role = role
        self.digest = None
        self.stamp = 0       # step of last own mutation / creation


def mk_op(kind, shape=()):
    _uid[0] += 1
    key = 'c14/%d' % _uid[0]
    return sp.RecOp(key, {'node': key, 'kind': kind, 'shape': shape, 'mode': 'mix',
                          'ndraws': 1 if kind == 'sim' else 0, 'salt': 0.01 * (_uid[0] % 97)})


def run(tape, kind):
    out = Outcome()
    elfi = sr.reset_process_state(tape)
    sp.clear_registry()
    sp.REC.reset(None)
    sp.REC.enabled = False
    _uid[0] = 0
    root = tempfile.mkdtemp(prefix='verif-c14-', dir=os.environ.get('VERIF_SCRATCH'))
    try:
        _run(tape, out, elfi, root)
    finally:
        sp.REC.enabled = True
        shutil.rmtree(root, ignore_errors=True)
    return out


def _run(tape, out, elfi, root):
    seed = tape.int('gen_seed', 0, 9999)
    parties = [Party(elfi.ElfiModel(name='m0'), RefModel(), 'orig')]
    nsteps = tape.int('n_steps', 4, 16)
    names_counter = [0]
    abstract = []
    cross = False

    def fresh(prefix):
        names_counter[0] += 1
        return '%s%d' % (prefix, names_counter[0])

    def add_node(P):
        m, r = P.model, P.ref
        pub = sorted(r.nodes)
        cls = tape.choice('add_class', ['Prior', 'Constant', 'Operation', 'Simulator', 'Summary',
                                        'Discrepancy', 'Prior', 'Summary', 'Distance'])
        star = tape.chance('star_name', 1, 4)
        base = fresh(cls[0].lower())
        name = base + '*' if star else base
        npar = tape.int('n_parents', 0, 3)
        parents = []
        for _ in range(npar):
            free = [x for x in pub if ('n', x) not in parents]
            if free and tape.chance('node_parent', 2, 3):
                # distinct node parents only: a DiGraph has one edge per (parent, child), so
                # Operation(fn, a, a) is outside "acyclic graphs" (observed, not judged)
                parents.append(('n', tape.choice('parent', free)))
            else:
                parents.append(('c', float(tape.int('const', 1, 9)) * 0.5))
        if cls in ('Summary', 'Discrepancy', 'Distance') and not parents:
            if not pub:
                cls = 'Constant'
            else:
                parents = [('n', tape.choice('parent', pub))]
        if cls == 'Distance':
            # needs node parents only (cdist over column-stacked summaries)
            parents = [p for p in parents if p[0] == 'n']
            if not parents:
                cls = 'Operation'
        args = [m[p] if k == 'n' else p for k, p in parents]
        # a node created without a name (inline, or where name inspection fails) is auto-named
        # `_<class>_<random>`: a private node that can hold observed data like any other
        auto = cls in ('Operation', 'Simulator', 'Summary') and bool(parents) and \
            tape.chance('auto_named', 1, 6)
        if auto:
            name, star = None, False
        elif cls in ('Simulator', 'Summary') and r.pending and tape.chance('declared_name', 1, 2):
            # the node whose observed data was declared ahead is created now
            name, star = tape.choice('pending_name', sorted(r.pending)), False
            base = name
            r.pending.discard(name)
            out.probes['node_created_after_its_observed_data'] += 1
        meta = False
        ctor_obs = None
        if cls == 'Constant':
            val = float(tape.int('const_value', 1, 20)) * 0.25
            node = elfi.Constant(val, model=m, name=name)
            op = 'const:' + sp.dg(val)
            pos = []
        elif cls == 'Prior':
            dist = tape.choice('dist', ['uniform', 'norm'])
            # loc may be a node or a constant, scale is always a positive constant
            loc = args[0] if args else 0.0
            scale = float(tape.int('scale', 1, 4)) * 0.5
            node = elfi.Prior(dist, loc, scale, model=m, name=name)
            op = 'prior:' + dist
            pos = ([parents[0]] if parents else [('c', 0.0)]) + [('c', scale)]
            pos = [(k, p if k == 'n' else sp.dg(p)) for k, p in pos]
        else:
            if cls == 'Distance':
                node = elfi.Distance('euclidean', *args, model=m, name=name)
                op = 'distance:euclidean'
            else:
                o = mk_op({'Operation': 'op', 'Simulator': 'sim', 'Summary': 'sum',
                           'Discrepancy': 'disc'}[cls])
                kw = {'name': name, 'model': m}
                if any(k == 'n' for k, _ in parents) and tape.chance('model_from_parents', 1, 4):
                    del kw['model']        # the model is taken from the parent nodes
                if cls in ('Simulator', 'Summary') and name not in r.observed and \
                        tape.chance('observed_in_constructor', 1, 4):
                    ctor_obs = np.array([[float(tape.int('obs', 1, 9))]])
                    kw['observed'] = ctor_obs
                node = getattr(elfi, cls)(o, *args, **kw)
                op = o.key
            pos = [(k, p if k == 'n' else sp.dg(p)) for k, p in parents]
        real_name = node.name
        if auto:
            out.probes['auto_named_private_node'] += 1
            if not real_name.startswith('_'):
                raise RuntimeError('auto-naming gave %r (harness assumption)' % real_name)
        if star and not real_name.startswith(base + '_'):
            out.violate('consistent-dag', 'star-name', name=real_name)
        if real_name in r.nodes:
            out.violate('consistent-dag', 'duplicate-name', name=real_name)
        r.nodes[real_name] = {'cls': cls, 'op': op, 'pos': pos, 'param': cls == 'Prior',
                              'meta': meta}
        if ctor_obs is not None:
            r.observed[real_name] = sp.dg(ctor_obs)
            out.probes['observed_given_to_constructor'] += 1
        elif cls in ('Simulator', 'Summary') and tape.chance('with_observed', 1, 2):
            val = np.array([[float(tape.int('obs', 1, 9))]])
            m.observed[real_name] = val
            r.observed[real_name] = sp.dg(val)
        return 'add-' + cls

    def become(P):
        m, r = P.model, P.ref
        pub = sorted(r.nodes)
        cands = []
        for a in pub:
            for b in pub:
                if a == b or r.children(b):
                    continue
                if b in r.ancestors(a) or b in r.descendants(a):
                    continue
                cands.append((a, b))
        if not cands:
            return None
        a, b = cands[tape.int('become_pair', 0, len(cands) - 1)]
        m[a].become(m[b])
        old_pars = [p for k, p in r.nodes[a]['pos'] if k == 'n']
        nb = r.nodes.pop(b)
        r.nodes[a] = nb
        r.observed.pop(a, None)
        if b in r.observed:
            r.observed[a] = r.observed.pop(b)
        r.drop_isolated_private(old_pars)
        return 'become'

    def become_inline(P):
        """'Change the operation / family, keep the inputs': the replacement is created inline
        with the node's own parents, so it SHARES the node's private constants (and any
        auto-named private parents) with the node it replaces."""
        m, r = P.model, P.ref
        cands = [a for a in sorted(r.nodes)
                 if r.nodes[a]['pos'] and not r.nodes[a].get('gapped') and
                 r.nodes[a]['cls'] in ('Prior', 'Operation', 'Simulator', 'Summary',
                                       'Discrepancy')]
        if not cands:
            return None
        a = tape.choice('become_inline_node', cands)
        cls = r.nodes[a]['cls']
        pars = m[a].parents
        if len(pars) != len(r.nodes[a]['pos']):
            return None
        if cls == 'Prior':
            dist = 'norm' if r.nodes[a]['op'] == 'prior:uniform' else 'uniform'
            new = elfi.Prior(dist, *pars, model=m)
            op = 'prior:' + dist
        else:
            o = mk_op({'Operation': 'op', 'Simulator': 'sim', 'Summary': 'sum',
                       'Discrepancy': 'disc'}[cls])
            new = getattr(elfi, cls)(o, *pars, model=m)
            op = o.key
        m[a].become(new)
        r.nodes[a] = {'cls': cls, 'op': op, 'pos': list(r.nodes[a]['pos']),
                      'param': cls == 'Prior', 'meta': False}
        r.observed.pop(a, None)
        out.probes['become_inline_shared_private_parents'] += 1
        return 'become'

    def remove(P):
        m, r = P.model, P.ref
        leaves = [n for n in sorted(r.nodes) if not r.children(n)]
        inner = [n for n in sorted(r.nodes) if r.children(n)]
        if inner and tape.chance('remove_inner_node', 1, 4):
            # removing a node that still has children: the children simply lose that parent
            # (their remaining positional parents keep their order; a gap in the indices is
            # legitimate for them from now on)
            n = tape.choice('remove_inner', inner)
            m.remove_node(n)
            r.remove(n)
            out.probes['inner_node_removed'] += 1
            return 'remove-inner'
        if not leaves:
            return None
        n = tape.choice('remove', leaves)
        m.remove_node(n)
        r.remove(n)
        return 'remove'

    def set_params(P):
        m, r = P.model, P.ref
        pub = sorted(r.nodes)
        if not pub:
            return None
        chosen = [n for n in pub if tape.chance('is_param', 1, 3)]
        m.parameter_names = tape.shuffle('param_order', chosen)
        for n in pub:
            r.nodes[n]['param'] = n in chosen
        return 'set-parameters'

    def set_observed(P):
        m, r = P.model, P.ref
        cands = [n for n in sorted(r.nodes) if r.nodes[n]['cls'] in ('Simulator', 'Summary')]
        if not cands:
            return None
        n = tape.choice('obs_node', cands)
        if n in r.observed and tape.chance('delete_obs', 1, 3):
            del m.observed[n]
            del r.observed[n]
            return 'del-observed'
        val = np.array([[float(tape.int('obs', 1, 99)) * 0.5]])
        m.observed[n] = val
        r.observed[n] = sp.dg(val)
        return 'set-observed'

    def declare_observed(P):
        """Observed data given before the node exists (ElfiModel(observed={...}) / model.observed
        [name] = y ahead of the node): it waits, through any other edit, for the node."""
        m, r = P.model, P.ref
        if len(r.pending) >= 2:
            return None
        name = fresh('y')
        val = np.array([[float(tape.int('obs', 1, 99)) * 0.5]])
        m.observed[name] = val
        r.observed[name] = sp.dg(val)
        r.pending.add(name)
        return 'declare-observed'

    def set_meta(P):
        m, r = P.model, P.ref
        cands = [n for n in sorted(r.nodes) if r.nodes[n]['cls'] in ('Operation', 'Simulator',
                                                                      'Summary')]
        if not cands:
            return None
        n = tape.choice('meta_node', cands)
        m[n].uses_meta = True
        r.nodes[n]['meta'] = True
        return 'set-uses_meta'

    def add_named_edge(P):
        m, r = P.model, P.ref
        kids = [n for n in sorted(r.nodes) if r.nodes[n]['cls'] in ('Operation', 'Simulator',
                                                                     'Summary')]
        cands = []
        for c in kids:
            for par in sorted(r.nodes):
                if par == c or par in r.descendants(c) or ('n', par) in r.nodes[c]['pos'] \
                        or par in r.nodes[c].get('named', {}).values():
                    continue
                cands.append((par, c))
        if not cands:
            return None
        par, c = cands[tape.int('named_pair', 0, len(cands) - 1)]
        free = [k for k in ('alpha', 'beta', 'w') if k not in r.nodes[c].get('named', {})]
        if not free:
            return None
        pname = tape.choice('param_name', free)
        m.add_edge(par, c, param_name=pname)
        r.nodes[c].setdefault('named', {})[pname] = par
        return 'add-named-edge'

    def add_explicit_slots(P):
        """A node without parents gets two positional parents through
        model.add_edge(parent, child, <int>) with explicit slot numbers, in either order."""
        m, r = P.model, P.ref
        pub = sorted(r.nodes)
        if len(pub) < 2:
            return None
        pars = tape.shuffle('slot_parents', pub)[:2]
        o = mk_op('op')
        name = fresh('o')
        node = elfi.Operation(o, model=m, name=name)
        order = tape.choice('slot_order', [(0, 1), (1, 0)])
        for k_ in order:
            m.add_edge(pars[k_], name, k_)
        r.nodes[name] = {'cls': 'Operation', 'op': o.key, 'pos': [('n', pars[0]), ('n', pars[1])],
                         'param': False, 'meta': False}
        out.probes['explicit_slots_' + ('in_order' if order == (0, 1) else 'reversed')] += 1
        return 'add-explicit-slots'

    def do_copy(P):
        k = P.model.copy()
        parties.append(Party(k, P.ref.clone(), 'copy'))
        return 'copy'

    def do_saveload(P):
        P.model.save(prefix=root)
        k = elfi.ElfiModel.load(P.model.name, prefix=root)
        parties.append(Party(k, P.ref.clone(), 'loaded'))
        return 'save-load'

    step = 0
    for step in range(1, nsteps + 1):
        P = parties[tape.int('party', 0, len(parties) - 1)]
        if step <= 2:
            opname = 'add'
        else:
            opname = tape.choice('op', ['add', 'add', 'become', 'remove', 'set_params',
                                        'set_observed', 'copy', 'saveload', 'set_meta', 'add',
                                        'copy', 'named_edge', 'become', 'explicit_slots',
                                        'become_inline', 'declare_observed'])
        if opname in ('copy', 'saveload') and len(parties) >= 4:
            opname = 'add'
        fn = {'add': add_node, 'become': become, 'become_inline': become_inline, 'declare_observed': declare_observed, 'remove': remove, 'set_params': set_params,
              'set_observed': set_observed, 'copy': do_copy, 'saveload': do_saveload,
              'set_meta': set_meta, 'named_edge': add_named_edge,
              'explicit_slots': add_explicit_slots}[opname]
        try:
            done = fn(P)
        except Exception as e:
            import traceback
            tb = traceback.extract_tb(e.__traceback__)
            if not any('/elfi/' in fr.filename for fr in tb[-3:]):
                raise
            out.violate('consistent-dag', 'edit-raises-' + type(e).__name__, op=opname,
                        error=str(e)[:200])
            return
        if done is None:
            continue
        out.ev('step %d %s on %s#%d' % (step, done, P.role, parties.index(P)))
        abstract.append((done, P.role))
        mutated = done not in ('copy', 'save-load')
        if mutated:
            P.stamp = step
            if len(parties) > 1:
                cross = True
                out.probes['mutation_with_other_parties_alive'] += 1
        # ---- inspect EVERY party
        for Q in parties:
            bad = consistent(Q.model, Q.ref.nodes, Q.ref.pending)
            if bad:
                out.violate('consistent-dag', bad, step=step, op=done, party=Q.role)
                return
            GAPS.clear()
            rn, ro = real_canon(Q.model, Q.ref.nodes)
            en, eo = Q.ref.canon()
            unexpected = [n_ for (_, n_) in GAPS if not Q.ref.nodes.get(n_, {}).get('gapped')]
            if unexpected:
                out.violate('consistent-dag', 'positional-gap', step=step, op=done,
                            party=Q.role, nodes=unexpected[:4])
                return
            own = Q is P and mutated
            if rn != en or ro != eo:
                if own:
                    clause = {'become': 'become-semantics', 'remove': 'remove-semantics',
                              'remove-inner': 'remove-semantics',
                              'set-parameters': 'parameter-names'}.get(done, 'edit-semantics')
                    sig = ''
                else:
                    clause = 'isolation'
                    if ro != eo:
                        sig = 'observed-dict'
                    elif any(rn[n][3] != en[n][3] for n in rn if n in en):
                        sig = 'parameter-flag'
                    elif any(rn[n][4] != en[n][4] for n in rn if n in en):
                        sig = 'node-state'
                    else:
                        sig = 'structure'
                diff = [n for n in set(rn) | set(en) if rn.get(n) != en.get(n)][:4]
                out.violate(clause, sig, step=step, op=done, on=P.role, inspected=Q.role,
                            nodes=diff, observed_real=sorted(ro), observed_expected=sorted(eo),
                            history=[a for a, _ in abstract])
                return
            pn = Q.model.parameter_names
            if pn != Q.ref.parameter_names():
                out.violate('parameter-names', '' if own else 'isolation', step=step, got=pn,
                            expected=Q.ref.parameter_names())
                return
        # ---- seeded outputs
        if done in ('copy', 'save-load'):
            new = parties[-1]
            d0 = gen_digest(elfi, P.model, seed)
            d1 = gen_digest(elfi, new.model, seed)
            P.digest = d0
            new.digest = d1
            if d0 != d1:
                out.violate('copy-same-output' if done == 'copy' else 'load-same-output', '',
                            step=step, original=d0, new=d1)
                return
        elif mutated:
            P.digest = gen_digest(elfi, P.model, seed)
            for Q in parties:
                if Q is P or Q.digest is None:
                    continue
                d = gen_digest(elfi, Q.model, seed)
                if d != Q.digest:
                    out.violate('isolation', 'seeded-output', step=step, op=done, on=P.role,
                                inspected=Q.role, before=Q.digest, after=d)
                    return
    out.abstract = tuple(abstract)
    out.nontrivial = cross
    out.sample = {'history': ['%s@%s' % a for a in abstract], 'parties': len(parties)}

"""C06 - on-disk array stores keep exactly what was written, across reopen and crash.

Seeded operation histories over NpyArray / NpyStore / ArrayPool on SimFS, checked step by
step against an in-memory reference; every raw-operation snapshot after the first flush is a
crash point and is checked (kill-loads, kill-instant); one tape-chosen crash point per kill
operation is actually restarted from (restart-report) and the history continues.
"""
import gc
import io
import os
import pickle
import shutil
import tempfile

import numpy as np

from simkit.env import import_elfi
from simkit.runner import Outcome
from simkit.simfs import SimFS

PROPERTY = 'C06'
LEVEL = 'fault_enumeration'
PLAN = {'quick': [('store', 1600), ('array', 800), ('pool', 800)],
        'thorough': [('store', 150000), ('array', 75000), ('pool', 75000)]}
TIMEOUT = {'quick': 900, 'thorough': 6 * 3600}
RULE = ('each run: one seeded history (<= 14 logical operations: append, overwrite, delete '
        'last, clear, flush, close+reopen, pickle+unpickle, kill+restart; ArrayPool: add_batch, '
        'remove_batch, clear, flush, save, close+open) over NpyStore / NpyArray / ArrayPool '
        '(1-3 stores) with dtype in {f8,f4,f2,i8,i4,i2,u8,u1,bool,c16,S3,>f8,>i4}, row shape (),(k,),(k,l), '
        'batch_size 1..6, batch memory layout C / Fortran / strided view, Python buffer size in {64,512,4096,8192,1MiB}; after every raw '
        'write/truncate and every operation boundary the file bytes are snapshotted; EVERY '
        'snapshot taken after the first flush is evaluated as a crash point (enumerated '
        'exhaustively per history). distinct = (object kind, abstract history = op kinds with '
        'index classes, crash-op kinds); non-trivial = some crash point lies between a flush '
        'and a later un-flushed mutation')
COMPONENTS = {
    'real': ['elfi.store.NpyArray', 'NpyStore', 'ArrayStore', 'ArrayPool/OutputPool save/open',
             'CPython io.BufferedRandom', 'numpy.memmap on the real fd', 'numpy.load', 'pickle',
             'real files in a scratch directory'],
    'stub': ['raw file layer bookkeeping (SimRaw): logs raw ops, snapshots bytes, drops writes '
             'of a killed process'],
}
ASSUMPTIONS = [
    'a kill preserves what reached the OS (page cache incl. mmap stores) and loses only the '
    'user-space buffer; no torn raw writes, no I/O errors, no power loss (outside C06)',
    'every history starts with one append (C06 is about initialised stores)',
    'ArrayPool pickles are not judged after a kill (only the array files are)',
]
EXPECTED_PROBES = {'quick': ['truncate_then_append', 'reopen_with_trailing_rows',
                             'clear_then_reopen', 'kill_restart']}

DTYPES = ['f8', 'f4', 'i8', 'i4', 'u1', 'bool', 'c16', 'f2', 'i2', 'u8', 'S3', '>f8', '>i4']


class Gen:
    """Unique batch contents."""

    def __init__(self, dtype, rshape, tape=None):
        self.dtype = np.dtype(dtype)
        self.rshape = rshape
        self.counter = 0
        self.tape = tape

    def rows(self, n):
        self.counter += 1
        size = n * int(np.prod(self.rshape)) if self.rshape else n
        base = np.arange(size, dtype=np.int64) + self.counter * 1009
        if self.dtype.kind == 'S':
            a = np.array([('%03d' % (v % 1000)).encode() for v in base])
        elif self.dtype.kind == 'b':
            a = ((base * 2654435761) >> 7) % 2 == 0
        elif self.dtype.kind == 'u':
            a = (base * 31) % 251
        elif self.dtype.kind == 'c':
            a = base.astype(np.float64) + 1j * (base % 13)
        else:
            a = base
        a = np.asarray(a).astype(self.dtype).reshape((n,) + tuple(self.rshape))
        if self.tape is None:
            return a
        # the memory layout of a batch is an input dimension too: C-contiguous, column-major
        # (e.g. a simulator that builds (dim, batch) and transposes) or a strided view
        lay = self.tape.choice('layout', ['C', 'C', 'F', 'strided'])
        if lay == 'F' and a.ndim >= 2:
            return np.asfortranarray(a)
        if lay == 'strided':
            big = np.zeros((2 * n,) + tuple(self.rshape), dtype=self.dtype)
            big[::2] = a
            return big[::2]
        return a


def concat(state, dtype, rshape):
    if not state:
        return np.zeros((0,) + tuple(rshape), dtype=dtype)
    # np.concatenate returns native byte order; the store keeps the dtype it was given
    return np.concatenate(state).astype(dtype, copy=False)


def same(a, b):
    return a.shape == b.shape and a.dtype == b.dtype and np.array_equal(a, b)


class FileModel:
    def __init__(self, path, dtype, rshape):
        self.path = path
        self.dtype = np.dtype(dtype)
        self.rshape = tuple(rshape)
        self.states = {}      # op index -> list of arrays (logical content after that op)
        self.lo = None        # op index of the last completed flush (None: never flushed)
        self.cur = []

    def content(self, j):
        return concat(self.states[j], self.dtype, self.rshape)


class History:
    def __init__(self, out, fs, files):
        self.out = out
        self.fs = fs
        self.files = files         # list of FileModel
        self.j = -1
        self.opkinds = []
        self.ranges = []           # parallel to fs.snaps: {path: (lo, hi)}
        self.checked = 0
        orig_snapshot = fs.snapshot

        def snapshot(label):
            k = orig_snapshot(label)
            self.ranges.append({f.path: (f.lo, self.j) for f in self.files})
            return k
        fs.snapshot = snapshot

    def begin(self, kind, new_states):
        """Declare the logical post-state of the operation about to run."""
        self.j += 1
        self.opkinds.append(kind)
        for f, st in zip(self.files, new_states):
            f.states[self.j] = list(st)
            f.cur = list(st)
        self.fs.marker = (self.j, kind)
        self.out.ev('OP %d %s' % (self.j, kind))

    def end(self, flushed=False, flushed_files=None):
        if flushed:
            for f in (flushed_files if flushed_files is not None else self.files):
                f.lo = self.j
        self.fs.snapshot('boundary')

    # -- crash point evaluation -----------------------------------------------------------

    def match(self, f, data, lo, hi):
        """Return (loads, matching state index or None)."""
        try:
            arr = np.load(io.BytesIO(data), allow_pickle=False)
        except Exception as e:
            return False, str(e)[:120]
        for i in range(hi, lo - 1, -1):
            if i in f.states and same(arr, f.content(i)):
                return True, i
        return True, None

    def check_snapshots(self, upto=None):
        """Evaluate every not-yet-evaluated snapshot as a crash point."""
        n = len(self.fs.snaps) if upto is None else upto
        for k in range(self.checked, n):
            marker, label, content = self.fs.snaps[k]
            for f in self.files:
                lo, hi = self.ranges[k][f.path]
                if lo is None:
                    continue
                data = content.get(f.path)
                opk = self.opkinds[hi] if hi < len(self.opkinds) else '?'
                if data is None:
                    self.out.violate('kill-loads', 'file-missing/' + opk, snapshot=k)
                    continue
                self.out.stats['crash_points'] += 1
                loads, m = self.match(f, data, lo, hi)
                if hi > lo:
                    self.out.probes['crash_between_flush_and_unflushed_mutation'] += 1
                pre = [self.opkinds[i] for i in range(lo + 1, hi + 1)]
                if not loads:
                    sig = 'after-unflushed-truncate' if any(
                        p in ('delete', 'clear') for p in pre) else opk
                    self.out.violate('kill-loads', sig, snapshot=k, raw=label, op=hi,
                                     history=self.opkinds[:hi + 1], since_flush=pre, error=m,
                                     file=os.path.basename(f.path))
                elif m is None:
                    sig = opk
                    ow = [i for i, p in enumerate(pre) if p.startswith('overwrite')]
                    if ow and any(p == 'append' for p in pre[:ow[-1]]):
                        sig = 'overwrite-after-unflushed-append'
                    elif any(p in ('delete', 'clear') for p in pre[:-1]):
                        sig = 'after-unflushed-truncate'
                    self.out.violate('kill-instant', sig, snapshot=k, raw=label, op=hi,
                                     history=self.opkinds[:hi + 1], since_flush=pre,
                                     file=os.path.basename(f.path))
        self.checked = n


def report_store(out, store, model, bs, where, full):
    """`report` clause for NpyStore-like objects."""
    n = len(model)
    if len(store) != n:
        out.violate('report', 'len', where=where, got=len(store), expected=n)
        return False
    for i in (n, n + 1):
        if i in store:
            out.violate('report', 'contains-beyond', where=where, index=i)
            return False
    for i in range(n):
        if i not in store:
            out.violate('report', 'contains', where=where, index=i)
            return False
        if full:
            got = np.asarray(store[i])
            if not same(got, model[i]):
                out.violate('report', 'content', where=where, index=i)
                return False
    return True


def check_standard_npy(out, path, f, where):
    try:
        arr = np.load(path, allow_pickle=False)
    except Exception as e:
        out.violate('standard-npy', 'load-fails', where=where, error=str(e)[:120])
        return
    if not same(arr, concat(f.cur, f.dtype, f.rshape)):
        out.violate('standard-npy', 'content', where=where, got_rows=len(arr),
                    expected_rows=len(concat(f.cur, f.dtype, f.rshape)))


# ---------------------------------------------------------------------------------------------


def run_store(tape, out, fs, root, estore, kind):
    dtype = tape.choice('dtype', DTYPES)
    rshape = tape.choice('row_shape', [(), (2,), (3,), (2, 2)])
    # mostly small batches (many crash points per byte), sometimes batches larger than the
    # small Python buffers, so that one append is several raw writes or bypasses the buffer
    bs = tape.choice('batch_size', [1, 2, 3, 4, 5, 6, 1, 2, 3, 17, 40])
    gen = Gen(dtype, rshape, tape)
    path = os.path.join(root, 'a.npy')
    f = FileModel(path, dtype, rshape)
    h = History(out, fs, [f])
    array_level = (kind == 'array')
    zombies = []

    limited = [False]   # the store was opened with n_batches < what the file holds

    def open_store(n_batches=None):
        if array_level:
            return estore.NpyArray(path)
        # the store is given the file name or an NpyArray opened by the caller
        target = estore.NpyArray(path) if tape.chance('store_over_array_object', 1, 4) else path
        if n_batches is not None:
            return estore.NpyStore(target, bs, n_batches=n_batches)
        return estore.NpyStore(target, bs)

    store = open_store()
    nops = tape.int('n_ops', 3, 14)
    model = []          # list of batches (store kind) / single-array list (array kind)
    last_mut = None
    info = {'kills': 0}
    for step in range(nops):
        n = len(model)
        if step == 0:
            op = 'append'
        elif step == 1 and tape.chance('early_flush', 3, 4):
            op = 'flush'
        else:
            ops = ['append', 'append', 'flush', 'overwrite', 'delete', 'clear', 'reopen',
                   'pickle', 'kill', 'delete', 'append', 'reopen_limited', 'refused_append',
                   'refused_delete']
            op = tape.choice('op', ops)
            if op == 'reopen_limited' and array_level:
                op = 'reopen'
            if limited[0] and op in ('kill', 'clear'):
                op = 'append'
        full = tape.chance('read_back', 1, 2)
        if zombies and tape.chance('drop_superseded_handles', 1, 3):
            # a handle that was superseded by pickle+unpickle is released only now, after the
            # new handle may have changed the length of the file
            zombies.clear()
            gc.collect()
            out.probes['superseded_handle_dropped_late'] += 1
        if array_level:
            total = len(concat(model, f.dtype, f.rshape))
        if op == 'append':
            b = gen.rows(bs if not array_level else tape.int('rows', 1, 4))
            new = model + [b]
            h.begin('append', [new])
            if array_level:
                store.append(b)
            else:
                store[n] = b
            h.end()
            if last_mut in ('delete', 'clear'):
                out.probes['truncate_then_append'] += 1
            model = new
            last_mut = 'append'
        elif op == 'refused_delete':
            # deleting anything but the last batch (or a batch the store does not hold) is
            # refused; a refused delete must not have touched the file or the report
            if array_level or limited[0] or n == 0:
                continue
            cands = list(range(0, n - 1)) + [n, n + 1]
            i = cands[tape.int('refused_delete_index', 0, len(cands) - 1)]
            h.begin('refused-delete', [model])
            try:
                del store[i]
            except (IndexError, ValueError, KeyError):
                out.probes['delete_refused'] += 1
            else:
                out.violate('report', 'bad-delete-accepted', index=i, n_batches=n,
                            where='op %d' % h.j)
                return info
            h.end()
        elif op == 'refused_append':
            # a fault at the API: a batch the store must refuse (other dtype / other row shape).
            # The operation fails, nothing is written, and the store keeps reporting exactly
            # what it held - "may fail, never corrupt"
            if limited[0]:
                # with fewer batches exposed than the file holds, index n is an in-place
                # overwrite, and numpy assignment casts instead of refusing
                continue
            why = tape.choice('refused_why', ['dtype', 'row_shape'])
            if why == 'dtype':
                other = 'i4' if f.dtype.kind in 'fc' else 'f8'
                bad = Gen(other, rshape).rows(bs)
            else:
                bad = Gen(dtype, tuple(rshape) + (2,)).rows(bs)
            h.begin('refused-append', [model])
            try:
                if array_level:
                    store.append(bad)
                else:
                    store[n] = bad
            except (ValueError, TypeError, IndexError):
                out.probes['append_refused'] += 1
            else:
                out.violate('report', 'bad-batch-accepted', why=why, where='op %d' % h.j)
                return info
            h.end()
        elif op == 'overwrite':
            if array_level:
                if total == 0:
                    continue
                a = tape.int('ow_start', 0, total - 1)
                ln = tape.int('ow_len', 1, total - a)
                cur = concat(model, f.dtype, f.rshape).copy()
                nb = gen.rows(ln)
                cur[a:a + ln] = nb
                new = [cur]
                h.begin('overwrite', [new])
                store[a:a + ln] = nb
                h.end()
            else:
                if n == 0:
                    continue
                i = tape.int('ow_index', 0, n - 1)
                nb = gen.rows(bs)
                new = list(model)
                new[i] = nb
                h.begin('overwrite' + ('-last' if i == n - 1 else ''), [new])
                store[i] = nb
                h.end()
            model = new
            last_mut = 'overwrite'
        elif op == 'delete':
            if array_level:
                if total == 0:
                    continue
                ln = tape.int('trunc_to', 0, total - 1)
                new = [concat(model, f.dtype, f.rshape)[:ln].copy()]
                h.begin('delete', [new])
                store.truncate(ln)
                h.end()
            else:
                if n == 0:
                    continue
                new = model[:-1]
                h.begin('delete', [new])
                del store[n - 1]
                h.end()
            model = new
            last_mut = 'delete'
        elif op == 'clear':
            h.begin('clear', [[]])
            store.clear()
            h.end()
            model = []
            last_mut = 'clear'
        elif op == 'reopen_limited':
            # NpyStore(file, batch_size, n_batches=k): make only the first k batches available
            # (documented constructor argument). From here on the file holds MORE than the
            # logical content by design, so only the `report` clause applies: crash points and
            # the standard-.npy clause are switched off for the rest of the history.
            k = tape.int('limit_to', 0, n)
            new = model[:k]
            h.begin('reopen-limited', [new])
            store.close()
            f.lo = None
            limited[0] = True
            h.end()
            store = open_store(n_batches=k)
            model = new
            last_mut = None
            out.probes['reopen_limited'] += 1
        elif op == 'flush':
            h.begin('flush', [model])
            store.flush()
            h.end(flushed=not limited[0])
            if not limited[0]:
                check_standard_npy(out, path, f, 'after flush (op %d)' % h.j)
        elif op == 'reopen':
            h.begin('reopen', [model])
            store.close()
            h.end(flushed=not limited[0])
            if not limited[0]:
                check_standard_npy(out, path, f, 'after close (op %d)' % h.j)
            if last_mut == 'clear':
                out.probes['clear_then_reopen'] += 1
            store = open_store(n_batches=len(model) if limited[0] else None)
            last_mut = None
        elif op == 'pickle':
            h.begin('pickle', [model])
            blob = pickle.dumps(store)
            h.end(flushed=not limited[0])
            if not limited[0]:
                check_standard_npy(out, path, f, 'after pickling (op %d)' % h.j)
            zombies.append(store)       # the old handle stays alive for a while
            store = pickle.loads(blob)
            if tape.chance('drop_old_handle', 1, 2):
                zombies.clear()
                gc.collect()
        elif op == 'kill':
            if f.lo is None:
                continue
            h.check_snapshots()
            # choose a crash point among the snapshots since the last flush completed
            cands = [k for k in range(len(fs.snaps)) if h.ranges[k][path][0] is not None
                     and h.ranges[k][path][0] == f.lo]
            if not cands:
                continue
            k = cands[len(cands) - 1 - tape.int('crash_point', 0, len(cands) - 1)]
            lo, hi = h.ranges[k][path]
            content = fs.kill(k)
            zombies.append(store)
            loads, m = h.match(f, content[path], lo, hi)
            if not loads or m is None:
                # already reported by check_snapshots; nothing to restart from
                return info
            if m < hi:
                out.probes['restart_lost_unflushed_ops'] += 1
            trailing = len(content[path]) > len(_npy_bytes(f.content(m), content[path]))
            if trailing:
                out.probes['reopen_with_trailing_rows'] += 1
            model = list(f.states[m])
            h.begin('kill', [model])
            f.lo = h.j
            store = open_store()
            h.end(flushed=True)
            info['kills'] += 1
            out.probes['kill_restart'] += 1
            if array_level:
                if len(store) != len(concat(model, f.dtype, f.rshape)):
                    out.violate('restart-report', 'len', got=len(store),
                                expected=len(concat(model, f.dtype, f.rshape)))
                    return info
            else:
                if not report_store(out, store, model, bs, 'after restart', True):
                    out.violations[-1].clause = 'restart-report'
                    return info
            last_mut = None
            zombies.clear()
            gc.collect()
            continue
        # report
        if array_level:
            exp = concat(model, f.dtype, f.rshape)
            if len(store) != len(exp):
                out.violate('report', 'len', where='op %d %s' % (h.j, op), got=len(store),
                            expected=len(exp))
                return info
            if full and len(exp):
                if not same(np.asarray(store[:]), exp):
                    out.violate('report', 'content', where='op %d %s' % (h.j, op))
                    return info
        else:
            if not report_store(out, store, model, bs, 'op %d %s' % (h.j, op), full):
                return info
    # final: clean close, standard file, all crash points
    zombies.clear()
    gc.collect()
    h.begin('close', [model])
    store.close()
    h.end(flushed=not limited[0])
    if not limited[0]:
        check_standard_npy(out, path, f, 'final close')
    h.check_snapshots()
    zombies.clear()
    store = None
    gc.collect()
    info['h'] = h
    return info


def _npy_bytes(arr, like):
    """Length a file with this content would minimally have, given the header length in
    `like` (the header is fixed-length; only the data part varies)."""
    import numpy.lib.format as fmt
    bio = io.BytesIO(like)
    fmt.read_magic(bio)
    fmt.read_array_header_2_0(bio)
    return b'\0' * (bio.tell() + arr.nbytes)


def run_pool(tape, out, fs, root, elfi, estore):
    nstores = tape.int('n_stores', 1, 3)
    bs = tape.int('batch_size', 1, 6)
    names = ['n%d' % i for i in range(nstores)]
    gens = {}
    files = []
    for nm in names:
        dt = tape.choice('dtype', DTYPES)
        rs = tape.choice('row_shape', [(), (2,), (2, 2)])
        gens[nm] = Gen(dt, rs, tape)
        files.append(FileModel(os.path.join(root, 'p', nm + '.npy'), dt, rs))
    h = History(out, fs, files)
    pool = estore.ArrayPool(names, name='p', prefix=root)
    elfi.ComputationContext(batch_size=bs, seed=tape.int('seed', 0, 999), pool=pool)
    models = {nm: [] for nm in names}
    nops = tape.int('n_ops', 3, 14)
    info = {'kills': 0}
    zombies = []

    def cur():
        return [models[nm] for nm in names]

    for step in range(nops):
        n = len(models[names[0]])
        if zombies and tape.chance('drop_superseded_pool', 1, 3):
            zombies.clear()
            gc.collect()
            out.probes['superseded_handle_dropped_late'] += 1
        if step == 0:
            op = 'add_batch'
        elif step == 1 and tape.chance('early_flush', 3, 4):
            op = 'flush'
        else:
            op = tape.choice('op', ['add_batch', 'add_batch', 'flush', 'remove_batch', 'clear',
                                    'save', 'close_open', 'add_batch', 'readd', 'save_open'])
        if op == 'add_batch':
            batch = {nm: gens[nm].rows(bs) for nm in names}
            for nm in names:
                models[nm] = models[nm] + [batch[nm]]
            h.begin('append', cur())
            pool.add_batch(batch, n)
            h.end()
        elif op == 'readd':
            # adding an index the pool already holds must not change anything
            if n == 0:
                continue
            i = tape.int('readd_index', 0, n - 1)
            batch = {nm: gens[nm].rows(bs) for nm in names}
            h.begin('readd', cur())
            pool.add_batch(batch, i)
            h.end()
        elif op == 'remove_batch':
            if n == 0:
                continue
            for nm in names:
                models[nm] = models[nm][:-1]
            h.begin('delete', cur())
            pool.remove_batch(n - 1)
            h.end()
        elif op == 'clear':
            for nm in names:
                models[nm] = []
            h.begin('clear', cur())
            pool.clear()
            h.end()
        elif op == 'flush':
            h.begin('flush', cur())
            pool.flush()
            h.end(flushed=True)
            for f in files:
                check_standard_npy(out, f.path, f, 'after pool.flush (op %d)' % h.j)
        elif op == 'save':
            h.begin('save', cur())
            pool.save()
            h.end(flushed=True)
            for f in files:
                check_standard_npy(out, f.path, f, 'after pool.save (op %d)' % h.j)
        elif op == 'save_open':
            # pickling + unpickling at pool level: save(), open a second handle while the
            # first one is still alive, continue with the second, drop the first later
            h.begin('pickle', cur())
            pool.save()
            h.end(flushed=True)
            for f in files:
                check_standard_npy(out, f.path, f, 'after pool.save (op %d)' % h.j)
            old_pool = pool
            pool = estore.ArrayPool.open('p', prefix=root)
            zombies.append(old_pool)
            if tape.chance('drop_old_pool', 1, 2):
                zombies.clear()
                gc.collect()
            out.probes['pool_save_open'] += 1
            if sorted(pool.stores) != sorted(names):
                out.violate('report', 'pool-stores', got=sorted(pool.stores))
                return info
        elif op == 'close_open':
            h.begin('reopen', cur())
            pool.close()
            h.end(flushed=True)
            for f in files:
                check_standard_npy(out, f.path, f, 'after pool.close (op %d)' % h.j)
            pool = estore.ArrayPool.open('p', prefix=root)
            out.probes['pool_close_open'] += 1
            if sorted(pool.stores) != sorted(names):
                out.violate('report', 'pool-stores', got=sorted(pool.stores))
                return info
        # report through the pool API
        n = len(models[names[0]])
        if len(pool) != n:
            out.violate('report', 'pool-len', where='op %d %s' % (h.j, op), got=len(pool),
                        expected=n)
            return info
        if tape.chance('read_back', 1, 2):
            for i in range(n):
                b = pool.get_batch(i)
                for nm in names:
                    if nm not in b or not same(np.asarray(b[nm]), models[nm][i]):
                        out.violate('report', 'pool-content', where='op %d %s' % (h.j, op),
                                    index=i, store=nm)
                        return info
            if pool.get_batch(n):
                out.violate('report', 'pool-beyond', where='op %d %s' % (h.j, op))
                return info
    zombies.clear()
    gc.collect()
    h.begin('close', cur())
    pool.close()
    h.end(flushed=True)
    for f in files:
        check_standard_npy(out, f.path, f, 'final close')
    h.check_snapshots()
    pool = None
    zombies.clear()
    gc.collect()
    info['h'] = h
    return info


def run(tape, kind):
    out = Outcome()
    elfi = import_elfi()
    import elfi.store as estore
    root = tempfile.mkdtemp(prefix='verif-c06-', dir=os.environ.get('VERIF_SCRATCH'))
    buf = tape.choice('buffer_size', [8192, 4096, 512, 64, 1 << 20])
    fs = SimFS(root, out, buffer_size=buf)
    cwd0 = None
    if tape.chance('same_name_file_in_cwd', 1, 4):
        # the working directory holds unrelated, valid store files with the same base names
        # (another run / pool with the same node names); a store is its recorded file, not
        # whatever else is called the same
        cwd0 = os.getcwd()
        ddir = os.path.join(root, 'cwd')
        os.makedirs(ddir)
        for nm in ('a', 'n0', 'n1', 'n2'):
            estore.NpyArray(os.path.join(ddir, nm + '.npy'),
                            array=np.arange(24, dtype=float) + 0.5).close()
        os.chdir(ddir)
        out.probes['same_name_file_in_cwd'] += 1
    had_open = 'open' in estore.__dict__
    prev_open = estore.__dict__.get('open')
    estore.open = fs.open
    try:
        if kind == 'pool':
            info = run_pool(tape, out, fs, root, elfi, estore)
        else:
            info = run_store(tape, out, fs, root, estore, kind)
    except Exception as e:
        # an exception out of the store on a valid history: the operation did not do what
        # the in-memory sequence does
        import traceback
        tb = traceback.extract_tb(e.__traceback__)
        in_elfi = any('/elfi/' in fr.filename for fr in tb)
        if not in_elfi:
            raise
        out.violate('report', 'raises-' + type(e).__name__, error=str(e)[:200],
                    where=str(fs.marker))
        info = {'kills': 0}
    finally:
        if had_open:
            estore.open = prev_open
        else:
            del estore.open
        gc.collect()
        if cwd0 is not None:
            os.chdir(cwd0)
        shutil.rmtree(root, ignore_errors=True)
    h = info.get('h')
    ops = tuple(h.opkinds) if h is not None else ()
    out.abstract = (kind, ops)
    out.nontrivial = out.probes.get('crash_between_flush_and_unflushed_mutation', 0) > 0
    out.sample = {'kind': kind, 'buffer_size': buf, 'ops': list(ops),
                  'raw_ops': fs.nraw, 'snapshots': len(fs.snaps)}
    out.stats['histories_' + kind] += 1
    return out

"""C12 - distance nodes compute the stated metric; adaptive scales ignore batching.

kind 'metric': oracle riding on simulated Rejection runs and generate(with_values) calls on
               models with an elfi.Distance node (the metric part has no state; stated so).
kind 'adhist': history driver on an AdaptiveDistance node - one data set fed through add_data
               under tape-chosen partitions, interleaved with update_distance /
               init_adaptation_round over 1-4 rounds.
kind 'adsim' : AdaptiveDistanceSMC / adaptive Rejection under the simulated scheduler - the
               reported scale of a round is the std of ALL summary rows consumed in it.
"""
import numpy as np
import scipy.spatial.distance as ssd

from simkit import simrun as sr
from simkit import spec as sp
from simkit.runner import Outcome

PROPERTY = 'C12'
LEVEL = 'exploration'
PLAN = {'quick': [('metric', 3000), ('adhist', 6000), ('adsim', 1500)],
        'thorough': [('metric', 400000), ('adhist', 1000000), ('adsim', 300000)]}
TIMEOUT = {'quick': 900, 'thorough': 6 * 3600}
RULE = ('metric: generated models with 1-3 scalar/vector summaries and an elfi.Distance node '
        '(euclidean, cityblock, chebyshev, sqeuclidean, minkowski p, canberra - each with or '
        'without per-column weights w -, braycurtis, seuclidean V, mahalanobis VI), batch_size 1..12, evaluated on every batch consumed by a simulated Rejection run '
        'and on generate(with_values=...) calls, against the scipy pairwise function applied '
        'row by row. adhist: a data set (1-3 summaries of width 1-3, 4-40 rows) fed to '
        'AdaptiveDistance.add_data under a tape-chosen partition into calls (single rows '
        'included) over 1-4 rounds with update_distance / init_adaptation_round in between, '
        'some rounds done by an adaptive Rejection run on the same node instead of by hand, '
        'the distance not evaluated after every round, the adaptation sometimes restarted with '
        'init_state(); '
        'scale vs numpy std(ddof=0), newest distance, earlier distances unchanged. adsim: '
        'AdaptiveDistanceSMC (1-3 rounds) and adaptive Rejection under tape-chosen schedules. '
        'distinct = (kind, metric / partition shape / schedule abstract); non-trivial = metric: '
        '>= 2 summaries or vector summary; adhist: some call had a different size than another; '
        'adsim: speculative batches were submitted')
COMPONENTS = {
    'real': ['elfi.Distance / distance_as_discrepancy', 'AdaptiveDistance.add_data/'
             'update_distance/nested_distance/init_adaptation_round',
             'Rejection._merge_batch/_update_distances', 'AdaptiveDistanceSMC',
             'generate(with_values) through compiler/loaders/Executor', 'clients (adsim, metric)'],
    'stub': ['SimBackend under the clients', 'recording simulator/summaries', 'numpy alias shim'],
}
ASSUMPTIONS = [
    'metric values compared with rtol 1e-9 (cdist and the pairwise functions differ by ulps)',
    'adaptive data sets have non-degenerate columns (std > 0)',
    'observed summaries are recomputed with the recording kernel, independent of ELFI',
]

PAIRWISE = {
    'euclidean': lambda u, v, kw: ssd.euclidean(u, v, kw.get('w')),
    'cityblock': lambda u, v, kw: ssd.cityblock(u, v, kw.get('w')),
    'chebyshev': lambda u, v, kw: ssd.chebyshev(u, v, kw.get('w')),
    'sqeuclidean': lambda u, v, kw: ssd.sqeuclidean(u, v, kw.get('w')),
    'minkowski': lambda u, v, kw: ssd.minkowski(u, v, kw['p'], kw.get('w')),
    'canberra': lambda u, v, kw: ssd.canberra(u, v, kw.get('w')),
    'braycurtis': lambda u, v, kw: ssd.braycurtis(u, v),
    'seuclidean': lambda u, v, kw: ssd.seuclidean(u, v, kw['V']),
    'mahalanobis': lambda u, v, kw: ssd.mahalanobis(u, v, kw['VI']),
}


def observed_summaries(spec):
    """Observed twin of every summary, recomputed with the kernel (no ELFI involved)."""
    sim = [n for n in spec['nodes'] if n['name'] == 'sim'][0]
    obs = {}
    for n in spec['nodes']:
        if n['kind'] == 'sum':
            obs[n['name']] = sp.kernel(n['cfg'], [sim['observed']], {}, 1, None, None, None)
    return obs


def expected_distance(spec, batch, obs):
    d = [n for n in spec['nodes'] if n['name'] == spec['disc']][0]
    U = np.column_stack([np.asarray(batch[s]) for s in d['parents']])
    v = np.concatenate([np.atleast_2d(obs[s]) for s in d['parents']], axis=1)[0]
    fn = PAIRWISE[d['metric']]
    return np.array([fn(U[i], v, d['kw']) for i in range(len(U))])


def run_metric(tape, out):
    elfi = sr.reset_process_state(tape)
    sp.clear_registry()
    spec = sp.gen_inference_spec(tape, disc_kinds=('dist',), ties=False)
    d = [n for n in spec['nodes'] if n['name'] == 'd'][0]
    obs = observed_summaries(spec)
    width = sum(int(np.prod(n['cfg']['shape'])) if n['cfg']['shape'] else 1
                for n in spec['nodes'] if n['kind'] == 'sum')
    pil = sr.pilot(elfi, spec)
    wl = sr.gen_rejection_workload(tape, spec, pil, extra_outputs=False)
    wl['output_names'] = list(spec['sums'])
    sched = sr.gen_schedule(tape)
    sp.REC.reset(None)
    run_ = sr.SamplerRun(tape, out, spec, wl, sched, quiet=True)
    res = run_.sample(wl['n_samples'], **wl['objective'])
    if res is None and run_.errors:
        out.violate('metric', 'raises-' + type(run_.errors[-1]).__name__, metric=d['metric'],
                    error=str(run_.errors[-1])[:200])
        return
    n_rows = 0
    for (_, bi, b) in run_.consumed:
        got = np.asarray(b['d'])
        if got.shape != (wl['batch_size'],):
            out.violate('metric', 'shape', metric=d['metric'], got=list(got.shape),
                        batch_size=wl['batch_size'])
            return
        exp = expected_distance(spec, b, obs)
        if not np.allclose(got, exp, rtol=1e-9, atol=1e-12):
            out.violate('metric', d['metric'], batch_index=bi, got=got[:4].tolist(),
                        expected=exp[:4].tolist(), kw=sorted(d['kw']))
            return
        n_rows += len(got)
    # direct node.generate(with_values=...) with hand-made summaries (batch_size 1 included)
    import elfi.clients.native as enative
    elfi.set_client(enative.Client())
    for _ in range(tape.int('n_generate', 1, 3)):
        bs = tape.int('gen_bs', 1, 5)
        wv = {}
        for n in spec['nodes']:
            if n['kind'] == 'sum':
                shp = (bs,) + tuple(n['cfg']['shape'])
                k = int(np.prod(shp))
                wv[n['name']] = (np.arange(k, dtype=float).reshape(shp) * 0.31 +
                                 tape.int('wv', 0, 40) * 0.17)
        got = np.asarray(run_.model['d'].generate(bs, with_values=wv))
        exp = expected_distance(spec, wv, obs)
        if got.shape != (bs,) or not np.allclose(got, exp, rtol=1e-9, atol=1e-12):
            out.violate('metric', d['metric'] + '/with_values', bs=bs, got=got.tolist()[:4],
                        expected=exp.tolist()[:4])
            return
        n_rows += bs
    out.abstract = ('metric', d['metric'], width, len(spec['sums']), wl['batch_size'],
                    sched['facade'])
    out.nontrivial = width >= 2
    out.probes['metric_' + d['metric']] += 1
    out.stats['rows_checked'] += n_rows
    out.sample = {'kind': 'metric', 'metric': d['metric'], 'kw': sorted(d['kw']),
                  'summaries': [(n['name'], list(n['cfg']['shape'])) for n in spec['nodes']
                                if n['kind'] == 'sum'], 'batch_size': wl['batch_size'],
                  'batches': len(run_.consumed), 'schedule': sched}


def ad_sim(t, batch_size=1, random_state=None):
    """Simulator of the adaptive workloads: 4 columns with independent noise."""
    t = np.asarray(t, dtype=float).reshape(-1, 1)
    return t * np.array([1.0, -2.0, 0.5, 3.0]) + random_state.normal(size=(batch_size, 4))


def ad_sum(y, cols=(0,), gain=1.0):
    """Summary: selected columns times a gain (very different scales on purpose)."""
    y = np.atleast_2d(y)
    out = y[:, list(cols)] * gain
    return out[:, 0] if len(cols) == 1 else out


AD_OBS = np.array([[0.4, -0.7, 0.2, 1.1]])


def adaptive_model(elfi, tape, widths):
    """prior -> 4-column simulator -> k summaries (column pickers with gains) -> AdaptiveDistance.
    Returns (spec-like dict for SamplerRun, model, observed summaries)."""
    from functools import partial
    m = elfi.ElfiModel(name='adaptive')
    t0 = elfi.Prior('uniform', 0.0, 1.0, model=m, name='t0')
    sim = elfi.Simulator(ad_sim, t0, model=m, name='sim', observed=AD_OBS)
    sums = []
    obs = {}
    col = 0
    gains = []
    for j, w in enumerate(widths):
        cols = tuple((col + c) % 4 for c in range(w))
        col += w
        gain = tape.choice('gain', [1.0, 25.0, 0.04, 300.0, 1e-9, 1e7, 3e-6])
        gains.append(gain)
        fn = partial(ad_sum, cols=cols, gain=gain)
        nm = 's%d' % j
        sums.append(elfi.Summary(fn, sim, model=m, name=nm))
        obs[nm] = fn(AD_OBS)
    # the distance may list the summaries in another order than they were created in; that
    # order is the column order of scales and distances
    order = tape.shuffle('distance_parent_order', list(range(len(widths))))
    elfi.AdaptiveDistance(*[sums[j] for j in order], model=m, name='d')
    spec = {'nodes': [], 'params': ['t0'], 'sums': ['s%d' % j for j in order],
            'disc': 'd', 'extras': [], 'mode': 'smooth', 'gains': [gains[j] for j in order],
            'widths': [widths[j] for j in order]}
    return spec, m, obs


def run_adhist(tape, out):
    elfi = sr.reset_process_state(tape)
    sp.clear_registry()
    sp.REC.enabled = False
    try:
        widths = [tape.int('width', 1, 3) for _ in range(tape.int('n_sums', 1, 3))]
        spec, model, obs = adaptive_model(elfi, tape, widths)
        widths = spec['widths']      # in the distance's parent order from here on
        node = model['d']
        v = np.concatenate([np.atleast_2d(obs[s]) for s in spec['sums']], axis=1)
        rounds = tape.int('rounds', 1, 4)
        rs = np.random.RandomState(tape.int('data_seed', 0, 9999))
        # a bystander: a second, unrelated model with its own AdaptiveDistance (same column
        # layout) that is alive and busy while the node under test has a round open; what
        # happens to one node must not leak into the other
        by = None
        if tape.chance('bystander_adaptive_node', 1, 3):
            _, by_model, _ = adaptive_model(elfi, tape, list(widths))
            by = {'node': by_model['d'], 'rs': np.random.RandomState(4242), 'models': [by_model]}
            out.probes['bystander_adaptive_node'] += 1

        def bystander_step():
            if by is None or not tape.chance('bystander_acts', 1, 2):
                return
            what = tape.choice('bystander_op', ['add_data', 'add_data', 'init_round', 'update',
                                                'new_node', 'init_state'])
            bn = by['node']
            if what == 'add_data':
                k = tape.int('bystander_rows', 1, 6)
                bn.add_data(*[100.0 * by['rs'].normal(loc=5.0, size=(k,) + ((w,) if w > 1 else ()))
                              for w in widths])
            elif what == 'init_round':
                bn.init_adaptation_round()
            elif what == 'update':
                if bn.state['store'][0]:
                    bn.update_distance()
            elif what == 'init_state':
                bn.init_state()
            else:
                _, m2, _ = adaptive_model(elfi, tape, list(widths))
                by['models'].append(m2)
                by['node'] = m2['d']
            out.probes['bystander_' + what] += 1
        probe_n = tape.choice('probe_rows', [3, 1, 2, 5])     # batch size 1 included
        probe = {s: (rs.normal(size=(probe_n,) + ((w,) if w > 1 else ())) * (1 + j)
                     * spec['gains'][j])
                 for j, (s, w) in enumerate(zip(spec['sums'], widths))}
        Up = np.column_stack([probe[s] for s in spec['sums']])
        prev_cols = None
        scales = []
        shapes = []
        open_rows = []      # rows added since the adaptation round was (re)started
        for r in range(rounds):
            if r and tape.chance('restart_adaptation', 1, 6):
                # init_state() starts the adaptation over: one (unscaled) distance again
                node.init_state()
                scales = []
                prev_cols = None
                open_rows = []
                out.probes['adaptation_restarted'] += 1
            if tape.chance('abandoned_sampler', 1, 6):
                # a sampler on this node is started and abandoned mid-run (an exception in the
                # simulator, an interrupt, or simply iterate() without ever finishing): starting
                # it began a new round, and the rows it consumed stay in that round until
                # somebody starts another one
                bs_a = tape.int('abandoned_bs', 1, 6)
                wl_a = {'method': 'rejection', 'batch_size': bs_a,
                        'seed': tape.int('abandoned_seed', 0, 2 ** 20), 'n_samples': 3,
                        'output_names': [], 'objective': {'n_sim': 60}}
                ab = sr.SamplerRun(tape, out, spec, wl_a, sr.REFERENCE_SCHED, model=model,
                                   quiet=True)
                open_rows = []
                ab.sampler.set_objective(3, n_sim=60)
                for _ in range(tape.int('abandoned_after', 1, 4)):
                    ab.sampler.iterate()
                for (_, _, b_) in ab.consumed:
                    open_rows.append(np.column_stack([np.asarray(b_[s_]) for s_ in spec['sums']]))
                del ab
                out.probes['sampler_abandoned_mid_round'] += 1
            if tape.chance('sampler_round', 1, 5):
                # this round is done by an adaptive Rejection run on the same node (the sampler
                # adds the data and updates the distance itself); rounds done by hand before
                # and after it are rounds of their own
                bs = tape.int('sampler_bs', 1, 8)
                n = tape.int('sampler_n', 1, 6)
                wl = {'method': 'rejection', 'batch_size': bs,
                      'seed': tape.int('sampler_seed', 0, 2 ** 20), 'n_samples': n,
                      'output_names': [],
                      'objective': {'n_sim': max(2, n + tape.int('sampler_extra', 1, 20))}}
                run_ = sr.SamplerRun(tape, out, spec, wl, sr.REFERENCE_SCHED, model=model,
                                     quiet=True)
                res = run_.sample(wl['n_samples'], **wl['objective'])
                if res is None:
                    if not out.inconclusive and run_.errors:
                        e = run_.errors[-1]
                        out.violate('newest-distance', 'run-raises-' + type(e).__name__,
                                    method='rejection', batch_size=bs, error=str(e)[:200])
                    return
                rows = np.vstack([np.column_stack([np.asarray(b[s_]) for s_ in spec['sums']])
                                  for (_, _, b) in run_.consumed])
                exp_scale = rows.std(axis=0)
                if np.any(exp_scale == 0):
                    out.inconclusive = True
                    return
                open_rows = []
                shapes.append(('sampler', len(rows)))
                out.probes['sampler_round_between_hand_rounds'] += 1
            else:
                if tape.chance('discarded_round_with_non_finite_rows', 1, 8):
                    # a round that met a non-finite summary value (log of an all-zero count, an
                    # overflow) and is thrown away by starting a new one: nothing of it may
                    # survive into the rounds that follow
                    bad = [spec['gains'][j] * rs.normal(loc=j, scale=0.5 + j,
                                                        size=(3,) + ((w,) if w > 1 else ()))
                           for j, w in enumerate(widths)]
                    bad[tape.int('non_finite_column', 0, len(bad) - 1)][1] = \
                        tape.choice('non_finite_value', [-np.inf, np.inf, np.nan])
                    with np.errstate(all='ignore'):
                        node.add_data(*bad)
                    node.init_adaptation_round()
                    open_rows = []
                    out.probes['non_finite_round_discarded'] += 1
                # update_distance starts a new round itself; an explicit init is optional
                if tape.chance('explicit_init', 1, 2):
                    node.init_adaptation_round()
                    open_rows = []
                n_rows = tape.int('rows', 4, 40)
                # the gain multiplies location and spread alike (|mean|/std stays moderate, so the
                # running-variance recurrence is well conditioned; tiny and huge scales are legal)
                data = [spec['gains'][j] * rs.normal(loc=j, scale=0.5 + j,
                                                     size=(n_rows,) + ((w,) if w > 1 else ()))
                        for j, w in enumerate(widths)]
                # partition into add_data calls
                cuts = [0]
                while cuts[-1] < n_rows:
                    step = tape.choice('chunk', [1, 2, 3, 5, 8, n_rows])
                    cuts.append(min(n_rows, cuts[-1] + step))
                sizes = [b - a for a, b in zip(cuts, cuts[1:])]
                shapes.append(tuple(sizes))
                for a, b in zip(cuts, cuts[1:]):
                    bystander_step()
                    node.add_data(*[d_[a:b] for d_ in data])
                bystander_step()
                full = np.vstack(open_rows + [np.column_stack(data)])
                exp_scale = full.std(axis=0)
                got_scale = np.asarray(node.state['scale'])
                if got_scale.shape != exp_scale.shape or \
                        not np.allclose(got_scale, exp_scale, rtol=1e-10, atol=0):
                    out.violate('scale', '', round=r, partition=sizes, got=got_scale.tolist(),
                                expected=exp_scale.tolist())
                    return
                node.update_distance()
                open_rows = []
            scales.append(exp_scale)
            if r < rounds - 1 and tape.chance('round_without_evaluation', 1, 3):
                # the distance is not evaluated after every round
                out.probes['round_without_evaluation'] += 1
                continue
            ncol = len(scales) + 1
            cols = np.asarray(node.generate(probe_n, with_values=probe))
            if cols.shape != (probe_n, ncol):
                out.violate('newest-distance', 'output-shape', round=r, rows=probe_n,
                            shape=list(cols.shape), expected=[probe_n, ncol])
                return
            exp_new = np.sqrt((((Up - v) / exp_scale) ** 2).sum(axis=1))
            if not np.allclose(cols[:, -1], exp_new, rtol=1e-9, atol=1e-12):
                out.violate('newest-distance', '', round=r, got=cols[:, -1].tolist(),
                            expected=exp_new.tolist())
                return
            exp0 = np.sqrt(((Up - v) ** 2).sum(axis=1))
            if not np.allclose(cols[:, 0], exp0, rtol=1e-9, atol=1e-12):
                out.violate('earlier-unchanged', 'first-column', round=r)
                return
            # every earlier distance still divides by the scale of ITS round
            for k, sc in enumerate(scales[:-1], 1):
                exp_k = np.sqrt((((Up - v) / sc) ** 2).sum(axis=1))
                if not np.allclose(cols[:, k], exp_k, rtol=1e-9, atol=1e-12):
                    out.violate('earlier-unchanged', 'column-value', round=r, column=k,
                                got=cols[:, k].tolist(), expected=exp_k.tolist())
                    return
            if prev_cols is not None and \
                    not np.array_equal(cols[:, :prev_cols.shape[1]], prev_cols):
                out.violate('earlier-unchanged', '', round=r)
                return
            prev_cols = cols
        out.abstract = ('adhist', tuple(widths), tuple(shapes))
        out.nontrivial = any(len(set(s)) > 1 for s in shapes)
        if any(1 in s for s in shapes):
            out.probes['single_row_add_data'] += 1
        out.sample = {'kind': 'adhist', 'summary_widths': widths, 'rounds': rounds,
                      'partitions': [list(s) for s in shapes]}
        out.ev('adhist widths=%s partitions=%s' % (widths, shapes))
    finally:
        sp.REC.enabled = True


def run_adsim(tape, out):
    elfi = sr.reset_process_state(tape)
    sp.clear_registry()
    widths = [tape.int('width', 1, 2) for _ in range(tape.int('n_sums', 1, 3))]
    spec, model, obs = adaptive_model(elfi, tape, widths)
    meth = tape.choice('method', ['adsmc', 'rejection'])
    bs = tape.int('batch_size', 1, 10)
    if meth == 'adsmc':
        wl = {'method': 'adsmc', 'batch_size': bs, 'seed': tape.int('seed', 0, 2 ** 20),
              'n_samples': tape.int('n_samples', 2, 10), 'output_names': [],
              'objective': {'rounds': tape.int('rounds', 1, 3),
                            'quantile': tape.choice('q', [0.5, 0.3, 0.7])}}
    else:
        n = tape.int('n_samples', 1, 10)
        wl = {'method': 'rejection', 'batch_size': bs, 'seed': tape.int('seed', 0, 2 ** 20),
              'n_samples': n, 'output_names': [],
              'objective': {'n_sim': n + tape.int('n_sim_extra', 1, 40)}}
    sched = sr.gen_schedule(tape)
    sp.REC.reset(None)
    run_ = sr.SamplerRun(tape, out, spec, wl, sched, model=model, quiet=True)
    res = run_.sample(wl['n_samples'], **wl['objective'])
    if res is None:
        if not out.inconclusive and run_.errors:
            # a valid adaptive run (any batch size, 1 included) has to finish
            e = run_.errors[-1]
            out.violate('newest-distance', 'run-raises-' + type(e).__name__, method=meth,
                        batch_size=bs, error=str(e)[:200])
        return

    def std_of(batches):
        rows = np.vstack([np.column_stack([np.asarray(b[s]) for s in spec['sums']])
                          for b in batches])
        return rows.std(axis=0), len(rows)

    if meth == 'adsmc':
        per = {}
        for (c, bi, b), r in zip(run_.consumed, run_.rounds):
            per.setdefault(r, []).append(b)
        ws = res.meta.get('adaptive_distance_w')
        if ws is None or len(ws) != len(res.populations):
            out.violate('scale-of-round', 'missing', reported=None if ws is None else len(ws))
            return
        v = np.concatenate([np.atleast_2d(obs[s]) for s in spec['sums']], axis=1)
        for r, pop in enumerate(res.populations):
            sd, nrows = std_of(per[r])
            got = np.asarray(ws[r], dtype=float)
            if np.any(sd == 0):
                continue
            if got.shape != sd.shape or not np.allclose(got, 1 / sd, rtol=1e-9, atol=0):
                out.violate('scale-of-round', 'adsmc', round=r, got=got.tolist(),
                            expected=(1 / sd).tolist(), rows=nrows, batch_size=bs)
                return
            # the population's discrepancy column is the newest distance of its own rows
            U = np.column_stack([np.asarray(pop.outputs[s]) for s in spec['sums']])
            exp = np.sqrt((((U - v) / sd) ** 2).sum(axis=1))
            gd = np.asarray(pop.outputs['d'], dtype=float)
            if gd.shape != exp.shape or not np.allclose(gd, exp, rtol=1e-8, atol=1e-12):
                aligned = gd.shape == exp.shape and np.allclose(np.sort(gd), np.sort(exp),
                                                                rtol=1e-8, atol=1e-12)
                out.violate('newest-distance', 'population-rows-misaligned' if aligned else
                            'population', round=r, got=gd[:5].tolist(), expected=exp[:5].tolist())
                return
            if not np.isclose(float(pop.meta['threshold']), float(exp.max()), rtol=1e-8):
                out.violate('newest-distance', 'population-threshold', round=r,
                            reported=float(pop.meta['threshold']), largest=float(exp.max()))
                return
    else:
        sd, nrows = std_of([b for (_, _, b) in run_.consumed])
        w = run_.sampler.model['d'].state['w'][-1]
        if not np.any(sd == 0):
            got = np.asarray(w, dtype=float)
            if got.shape != sd.shape or not np.allclose(got, 1 / sd, rtol=1e-9, atol=0):
                out.violate('scale-of-round', 'rejection', got=got.tolist(),
                            expected=(1 / sd).tolist(), rows=nrows, batch_size=bs)
                return
        # the reported discrepancy is the newest (adapted) distance of the returned summaries
        v = np.concatenate([np.atleast_2d(obs[s]) for s in spec['sums']], axis=1)
        U = np.column_stack([np.asarray(res.outputs[s]) for s in spec['sums']])
        exp = np.sqrt((((U - v) / sd) ** 2).sum(axis=1))
        got = np.asarray(res.outputs['d'], dtype=float)
        if got.shape == exp.shape and not np.any(sd == 0):
            if not np.allclose(got, exp, rtol=1e-8, atol=1e-12):
                aligned = np.allclose(np.sort(got), np.sort(exp), rtol=1e-8, atol=1e-12)
                out.violate('newest-distance', 'rejection-rows-misaligned' if aligned else
                            'rejection-result', got=got[:4].tolist(), expected=exp[:4].tolist())
                return
            if not all(got[i] <= got[i + 1] for i in range(len(got) - 1)):
                out.violate('newest-distance', 'rejection-not-ascending', got=got[:6].tolist())
                return
    sr.check_in_order(out, run_, continuing=(meth != 'rejection'))
    out.abstract = ('adsim', meth, tuple(widths), bs, tuple(run_.monitor.abstract))
    out.nontrivial = out.probes.get('speculative_submit', 0) > 0
    out.sample = {'kind': 'adsim', 'method': meth, 'summary_widths': widths,
                  'gains': spec['gains'], 'workload': wl,
                  'schedule': sched, 'consumed_batches': len(run_.consumed)}


def run(tape, kind):
    out = Outcome()
    if kind == 'metric':
        run_metric(tape, out)
    elif kind == 'adhist':
        run_adhist(tape, out)
    else:
        run_adsim(tape, out)
    return out

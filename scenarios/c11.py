"""C11 - Bayesian optimisation simulates only inside bounds and trains on what it ran.

BayesianOptimization / BOLFI.fit driven under the simulated scheduler.  The clause
"acquisition gradients equal the derivatives of the acquisition functions" is a pure analytic
identity and is NOT decided here (see MANIFEST level_note / DESIGN.md).
"""
import copy as pycopy

import numpy as np

from simkit import backend as bk
from simkit import simrun as sr
from simkit import spec as sp
from simkit.runner import Outcome

PROPERTY = 'C11'
LEVEL = 'exploration'
PLAN = {'quick': [('bo', 900)], 'thorough': [('bo', 80000)]}
TIMEOUT = {'quick': 900, 'thorough': 6 * 3600}
CHUNK = 4
RULE = ('each run: generated 1-2 parameter model (recording simulator, smooth discrepancy), '
        'BayesianOptimization or BOLFI with tape-chosen bounds (tight/wide/asymmetric), '
        'acq_noise_var in {0, scalar, per-parameter dict}, batch_size 1-3, '
        'batches_per_acquisition 1-4, initial_evidence in {count, precomputed dict, 0}, '
        'update_interval 1..inf, async_acq on/off, acquisition in {LCBSC default, LCBSC with '
        'small n_inits/max_opt_iters, LCBSC with additive cost + delta, LCBSC without prior, '
        'UniformAcquisition, MaxVar, ExpIntVar}, surrogate given (sorted / reversed parameter '
        'order) or built by BO itself, n_evidence 6-20, in a third of the runs a fixed probe '
        'point is watched after every iterate() (gradient, then central differences), '
        'optionally continued with a larger n_evidence; driven with set_objective+iterate '
        '(a fraction through infer/fit) on a tape-chosen facade/schedule; the synchronous runs '
        'are compared with the same configuration on the native client. distinct = '
        '(acquisition class, noise form, initial-evidence form, bs, bpa, async, abstract '
        'schedule); non-trivial = at least one acquisition happened while the client answered '
        'not-ready at least once or speculative batches were in flight')
COMPONENTS = {
    'real': ['BayesianOptimization/BOLFI prepare_new_batch/update/_allow_submit/'
             '_get_acquisition_index', 'LCBSC/MaxVar/ExpIntVar/UniformAcquisition.acquire',
             'bo.utils.minimize', 'AcquisitionBase._add_noise', 'GPyRegression.update (GPy)',
             'BatchHandler + clients', 'compiler/loaders/Executor'],
    'stub': ['SimBackend under the clients', 'recording simulator', 'numpy alias shim'],
}
ASSUMPTIONS = [
    'RandMaxVar is unreachable in this environment (NUTS/metropolis float() TypeError under '
    'numpy 2) and therefore not covered',
    'the acquisition-gradient clause is decided only in its history-dependent form (gradient-tracks-'
    'surrogate: probe point watched along the run, LCBSC); the analytic identity on a fixed surrogate '
    'for the other acquisition classes is not decided by this technique',
    'initial-evidence points are prior draws and are not held to the bounds',
    'max_parallel_batches and batches_per_acquisition are always passed explicitly, because '
    'their defaults depend on the client',
]


def gen_bo(tape, spec):
    params = sorted(spec['params'])
    bounds = {}
    for p in params:
        lo = tape.choice('b_lo', [0.0, -1.0, 0.25, -3.0])
        w = tape.choice('b_w', [1.0, 0.1, 4.0, 0.5])
        bounds[p] = (lo, lo + w)
    nv = tape.choice('noise_form', ['zero', 'scalar', 'dict', 'scalar_big'])
    if nv == 'zero':
        noise = 0
    elif nv == 'scalar':
        noise = tape.choice('noise', [0.01, 0.1])
    elif nv == 'scalar_big':
        noise = tape.choice('noise_big', [1.0, 25.0])
    else:
        noise = {p: tape.choice('noise_d', [0.0, 0.05, 2.0]) for p in params}
    bs = tape.int('batch_size', 1, 3)
    bpa = tape.int('batches_per_acquisition', 1, 4)
    init_form = tape.choice('initial_evidence', ['count', 'precomputed', 'zero', 'count'])
    n_init = tape.int('n_init', 1, 4) * bs if init_form == 'count' else 0
    if n_init and bs > 1 and tape.chance('ragged_init', 1, 3):
        n_init -= tape.int('ragged_i', 1, bs - 1)      # ELFI rounds it up to whole batches
    n_pre = tape.int('n_pre', 2, 6) if init_form == 'precomputed' else 0
    ui = tape.choice('update_interval', [1, 3, 10, 10 ** 6])
    acq = tape.choice('acquisition', ['lcbsc', 'lcbsc_small', 'uniform', 'maxvar', 'expintvar',
                                      'lcbsc', 'lcbsc_cost', 'lcbsc_noprior'])
    n_acq_batches = tape.int('n_acq_batches', 1, 6)
    n_evidence = n_pre + (-(-n_init // bs)) * bs + n_acq_batches * bs
    if bs > 1 and tape.chance('ragged_request', 1, 2):
        # a request that batch_size does not divide (the last batch is still consumed whole)
        n_evidence -= tape.int('ragged', 1, bs - 1)
    cont = tape.int('continue_batches', 1, 3) * bs if tape.chance('continue', 1, 4) else 0
    if cont and bs > 1 and tape.chance('ragged_continue', 1, 2):
        cont += tape.int('ragged_c', 1, bs - 1)
    cfg = {'bounds': bounds, 'noise_form': nv, 'noise': noise, 'batch_size': bs, 'bpa': bpa,
            'init_form': init_form, 'n_init': n_init, 'n_pre': n_pre, 'update_interval': ui,
            'acq': acq, 'n_evidence': n_evidence, 'continue': cont,
            'async': tape.chance('async_acq', 1, 4), 'seed': sr.gen_seed(tape),
            'via_infer': tape.chance('via_infer', 1, 10),
            'tm_order': tape.choice('surrogate_param_order', ['sorted', 'sorted', 'reversed',
                                                              'default']),
            'bolfi': tape.chance('bolfi', 1, 3),
            # a fixed probe point is watched along the run: gradient first, then the values
            # around it, then the value at the point itself (the last thing the acquisition
            # object saw before the surrogate changes again)
            'grad_probe': tape.chance('gradient_probe', 1, 3),
            # fault: the simulator fails once, in one batch; the exception leaves infer / iterate,
            # the user calls again and the run carries on without that batch
            'fail_bi': tape.int('failing_batch', 0, 7) if tape.chance('simulator_failure', 1, 5)
            else None,
            # fault: the client refuses ONE submission (transient scheduler / connection error)
            # after the batch was prepared; the user calls again
            'refuse_submit_at': tape.int('refused_submission', 1, 9)
            if tape.chance('submission_refused', 1, 5) else None}
    if cfg['refuse_submit_at'] is not None and bpa >= 2 and \
            tape.chance('refusal_inside_acquisition_group', 1, 2):
        # place the fault where it leaves in-flight state behind: the refused submission is
        # the SECOND batch of an acquisition group, whose points were already taken from the
        # acquired set
        init_batches = -(-n_init // bs) if init_form == 'count' else 0
        cfg['refuse_submit_at'] = init_batches + tape.int('refused_group', 0, 2) * bpa + 2
    return cfg


def tm_xy(tm):
    """Evidence of the surrogate (copies), or (None, None) while it has none."""
    if getattr(tm, '_gp', None) is None:
        return None, None
    return np.array(tm.X), np.array(tm.Y)


def _cost(x):
    return np.sum(np.atleast_2d(x) ** 2, axis=1)


def _cost_grad(x):
    return 2.0 * np.atleast_2d(x)


class BoRun:
    def __init__(self, tape, out, spec, cfg, sched, precomputed):
        elfi = sr.import_elfi()
        from elfi.methods.bo import acquisition as acqm
        from elfi.methods.bo.gpy_regression import GPyRegression
        from elfi.model.extensions import ModelPrior
        self.out = out
        self.cfg = cfg
        fac = sched['facade']
        self.backend = None if fac == 'native' else bk.SimBackend(
            tape, out, n_workers=sched['workers'], pickled=(fac != 'pool_ref'),
            eager=sched['eager'], bg_max=sched['bg_max'], stall=sched['stall'])
        if self.backend is not None and sched.get('cores0'):
            self.backend.reported_cores = 0     # engines not registered yet; mpb is explicit
            out.stats['client_reports_zero_cores'] += 1
        sp.REC.backend = self.backend
        self.client = bk.make_client(elfi, fac, self.backend)
        elfi.set_client(self.client)
        self.monitor = bk.ClientMonitor(self.client, self.backend, out, fac)
        if cfg.get('fail_bi') is not None:
            spec = pycopy.deepcopy(spec)
            simn = [n for n in spec['nodes'] if n['name'] == 'sim'][0]
            simn['cfg'] = dict(simn['cfg'], use_meta=True, fail_bi=cfg['fail_bi'])
        if cfg.get('refuse_submit_at') is not None and cfg.get('fail_bi') is None:
            inner_apply = self.client.apply
            n_apply = [0]

            def apply(kallable, *args, **kwargs):
                n_apply[0] += 1
                if n_apply[0] == cfg['refuse_submit_at']:
                    out.stats['submit_refused'] += 1
                    out.ev('C apply refused (transient error)')
                    raise sp.SubmitRefused('injected transient submission failure')
                return inner_apply(kallable, *args, **kwargs)
            self.client.apply = apply
        model, _ = sp.build_model(elfi, spec)
        self.model = model
        self.lost = []
        names = sorted(spec['params'])
        if cfg.get('tm_order') == 'reversed':
            # a user-supplied surrogate may list the parameters in any order; its order fixes
            # the columns of bounds, acquisitions and evidence
            names = names[::-1]
        tm = GPyRegression(names, bounds=cfg['bounds'])
        prior = ModelPrior(model, parameter_names=names)
        kw = dict(noise_var=cfg['noise'], seed=cfg['seed'])
        a = cfg['acq']
        if a == 'lcbsc':
            am = None
        elif a == 'lcbsc_small':
            am = acqm.LCBSC(tm, prior=prior, n_inits=2, max_opt_iters=5, exploration_rate=10, **kw)
        elif a == 'lcbsc_cost':
            # an acquisition cost added to the confidence bound, exploration set through delta
            from elfi.methods.bo.utils import CostFunction
            am = acqm.LCBSC(tm, prior=prior, n_inits=3, max_opt_iters=20, delta=0.3,
                            additive_cost=CostFunction(_cost, _cost_grad, scale=0.5), **kw)
        elif a == 'lcbsc_noprior':
            # without a prior the optimiser's start points are uniform draws inside the bounds
            am = acqm.LCBSC(tm, prior=None, n_inits=3, max_opt_iters=20, **kw)
        elif a == 'uniform':
            am = acqm.UniformAcquisition(tm, prior=prior, **kw)
        elif a == 'maxvar':
            am = acqm.MaxVar(tm, prior, n_inits=3, max_opt_iters=20, **kw)
        else:
            am = acqm.ExpIntVar(tm, prior, n_inits=3, max_opt_iters=20, n_samples=20, **kw)
        init = precomputed if cfg['init_form'] == 'precomputed' else cfg['n_init']
        if cfg.get('tm_order') == 'default' and am is None:
            tm = None           # BayesianOptimization builds its own surrogate from the bounds
        cls = elfi.BOLFI if cfg['bolfi'] else elfi.BayesianOptimization
        self.bo = cls(model, spec['disc'], bounds=cfg['bounds'], initial_evidence=init,
                      update_interval=cfg['update_interval'], target_model=tm,
                      acquisition_method=am, acq_noise_var=cfg['noise'],
                      batch_size=cfg['batch_size'], batches_per_acquisition=cfg['bpa'],
                      async_acq=cfg['async'], seed=cfg['seed'],
                      max_parallel_batches=sched['mpb'] or 3)
        self.monitor.limit = self.bo.max_parallel_batches
        self.names = list(self.bo.target_model.parameter_names)
        self.consumed = []
        self.overrides = []
        self.acquires = []
        self.prefix_ok = True
        self._install()

    def _install(self):
        bo, out, mon = self.bo, self.out, self.monitor
        tm = bo.target_model
        orig_update = bo.update
        orig_submit = bo.batches.submit
        am = bo.acquisition_method
        orig_acquire = am.acquire

        def update(batch, batch_index):
            own = mon.result_owner.get(id(batch))
            if own is None or mon.cid_bi.get(own) != batch_index or mon.state.get(own) != 'fetched':
                out.violate('cancelled-result-unused', '', bi=batch_index)
            X0, Y0 = tm_xy(tm)
            self.consumed.append((batch_index, batch))
            out.ev('S update bi=%d' % batch_index)
            r = orig_update(batch, batch_index)
            if X0 is not None:
                X1, Y1 = tm_xy(tm)
                if X1 is None or not (np.array_equal(X1[:len(X0)], X0) and
                                      np.array_equal(Y1[:len(Y0)], Y0)):
                    self.prefix_ok = False
            if len(self.consumed) > 300:
                raise sr.StepCap()
            return r

        def submit(batch=None):
            bi = bo.batches.next_index
            mon.current_bi = bi
            if batch:
                self.overrides.append((bi, {k: np.array(v) for k, v in batch.items()}))
                rows = sorted({len(np.atleast_1d(v)) for v in batch.values()})
                if rows != [bo.batch_size]:
                    out.violate('acquire-count', 'batch-rows', batch_index=bi, rows=rows,
                                batch_size=bo.batch_size)
            if bo.batches.num_pending > 0:
                out.probes['speculative_submit'] += 1
            try:
                return orig_submit(batch)
            finally:
                mon.current_bi = None

        def acquire(n, t=None):
            x = orig_acquire(n, t=t)
            self.acquires.append((n, t, np.array(x)))
            out.ev('A acquire n=%d t=%s pending=%d' % (n, t, bo.batches.num_pending))
            if bo.batches.num_pending > 0:
                out.probes['acquire_with_batches_in_flight'] += 1
            return x

        bo.update = update
        bo.batches.submit = submit
        am.acquire = acquire

    def drive(self, n_evidence, via_infer):
        bo = self.bo
        try:
            if via_infer:
                if self.cfg['bolfi']:
                    bo.fit(n_evidence, bar=False)
                else:
                    bo.infer(n_evidence, bar=False)
            else:
                bo.set_objective(n_evidence)
                while not bo.finished:
                    bo.iterate()
                    if self.cfg.get('grad_probe'):
                        self.probe_gradient()
                bo.batches.cancel_pending()
        except sr.StepCap:
            self.out.inconclusive = True
            return 'cap'
        except sp.SubmitRefused:
            # nothing was registered for that submission; the user simply calls again (in sync
            # mode the refusal hits the same batch under every schedule, so the comparison with
            # the reference execution still applies)
            self.out.stats['submit_refused_then_retry'] += 1
            return self.drive(n_evidence, via_infer)
        except Exception as e:
            if isinstance(e, sp.InjectedFailure) or 'injected simulator failure' in str(e):
                # the batch that failed is gone (it was taken off the pending list before its
                # result was fetched); the user simply calls again
                if not self.lost:
                    self.lost.append(self.cfg['fail_bi'])
                    self.out.stats['simulator_failure_then_retry'] += 1
                    self.out.ev('S simulator failed in batch %d; calling again' %
                                self.cfg['fail_bi'])
                    return self.drive(n_evidence, via_infer)
            self.error = e
            return 'error'
        self.monitor.check_clean('drive(%d)' % n_evidence)
        return 'ok'


def _probe_gradient(self):
    """gradient-tracks-surrogate: on the LIVE acquisition object, whatever it was asked before
    and however the surrogate changed since, evaluate_gradient(x0, t) is the derivative of
    evaluate(., t) as it is now (central differences).  The history-dependent face of 'the
    acquisition gradients equal the derivatives of the acquisition functions'."""
    bo = self.bo
    am = bo.acquisition_method
    tm = bo.target_model
    if type(am).__name__ != 'LCBSC' or getattr(tm, '_gp', None) is None or tm.n_evidence < 2:
        return
    lo = np.array([self.cfg['bounds'][p][0] for p in self.names], float)
    hi = np.array([self.cfg['bounds'][p][1] for p in self.names], float)
    x0 = lo + (hi - lo) * (0.37 + 0.21 * np.arange(len(lo)))
    t = 3
    g = np.asarray(am.evaluate_gradient(x0, t), float).ravel()
    fd = np.zeros(len(x0))
    for i in range(len(x0)):
        h = 1e-5 * (hi[i] - lo[i])
        e = np.zeros(len(x0))
        e[i] = h
        fd[i] = (float(np.ravel(am.evaluate(x0 + e, t))[0]) -
                 float(np.ravel(am.evaluate(x0 - e, t))[0])) / (2 * h)
    am.evaluate(x0, t)
    self.out.probes['gradient_probe'] += 1
    if g.shape != fd.shape or not np.all(np.isfinite(g)) or not np.all(np.isfinite(fd)):
        return
    tol = 1e-3 * max(1.0, float(np.max(np.abs(fd)))) 
    if np.max(np.abs(g - fd)) > tol:
        self.out.violate('gradient-tracks-surrogate', type(am).__name__, gradient=g.tolist(),
                         central_difference=fd.tolist(), n_evidence=int(tm.n_evidence))


BoRun.probe_gradient = _probe_gradient


def check_bo(out, run_, cfg, precomputed, spec):
    bo = run_.bo
    names = run_.names
    tm = bo.target_model
    dim = len(names)
    lo = np.array([cfg['bounds'][p][0] for p in names])
    hi = np.array([cfg['bounds'][p][1] for p in names])
    # acquire-count
    for (n, t, x) in run_.acquires:
        if x.shape != (n, dim):
            out.violate('acquire-count', '', requested=n, shape=list(x.shape), t=t)
            return
        if np.any(x < lo) or np.any(x > hi):
            out.violate('inside-bounds', 'acquire-' + cfg['acq'], t=t,
                        point=x[np.any((x < lo) | (x > hi), axis=1)][0].tolist(),
                        bounds=[lo.tolist(), hi.tolist()], noise=cfg['noise_form'])
            return
    # inside-bounds: everything submitted as an acquisition (consumed or cancelled)
    for bi, ov in run_.overrides:
        P = np.column_stack([ov[p] for p in names])
        if np.any(P < lo) or np.any(P > hi):
            out.violate('inside-bounds', 'submitted-' + cfg['acq'], batch_index=bi,
                        point=P[np.any((P < lo) | (P > hi), axis=1)][0].tolist(),
                        bounds=[lo.tolist(), hi.tolist()], noise=cfg['noise_form'])
            return
    # acquisition index: batches past the initial evidence must carry overrides
    init_off = bo.n_initial_evidence - bo.n_precomputed_evidence
    ov_idx = {bi for bi, _ in run_.overrides}
    for bi, b in run_.consumed:
        t = (cfg['batch_size'] * bi - init_off) // (cfg['batch_size'] * cfg['bpa'])
        if (t >= 0) != (bi in ov_idx):
            out.violate('inside-bounds', 'acquisition-index', batch_index=bi, t=int(t),
                        overridden=bi in ov_idx)
            return
        if t >= 0:
            P = np.column_stack([np.asarray(b[p]) for p in names])
            if np.any(P < lo) or np.any(P > hi):
                out.violate('inside-bounds', 'simulated-' + cfg['acq'], batch_index=bi)
                return
    # evidence-is-consumed
    Xs, Ys = [], []
    if precomputed is not None:
        Xs.append(np.column_stack([precomputed[p] for p in names]))
        Ys.append(np.asarray(precomputed[spec['disc']]).reshape(-1, 1))
    for bi, b in run_.consumed:
        Xs.append(np.column_stack([np.asarray(b[p]) for p in names]))
        Ys.append(np.asarray(b[spec['disc']]).reshape(-1, 1))
    X = np.vstack(Xs) if Xs else np.zeros((0, dim))
    Y = np.vstack(Ys) if Ys else np.zeros((0, 1))
    gX, gY = tm_xy(tm)
    if gX is None:
        gX, gY = np.zeros((0, dim)), np.zeros((0, 1))
    if gX.shape != X.shape or not np.array_equal(gX, X) or not np.array_equal(gY.reshape(-1, 1), Y):
        out.violate('evidence-is-consumed', 'content', got_rows=len(gX), expected_rows=len(X),
                    first_diff=int(np.argmax(np.any(gX != X, axis=1))) if gX.shape == X.shape
                    else None)
        return
    if bo.n_evidence != len(X) or tm.n_evidence != len(X):
        out.violate('evidence-is-consumed', 'n_evidence', reported=bo.n_evidence,
                    surrogate=tm.n_evidence, rows=len(X))
        return
    if not run_.prefix_ok:
        out.violate('evidence-is-consumed', 'earlier-rows-changed')
        return
    return X, Y


def gp_params(tm):
    gp = getattr(tm, '_gp', None)
    if gp is None:
        return None
    return np.array(gp.param_array)


def run(tape, kind):
    out = Outcome()
    elfi = sr.reset_process_state(tape)
    sp.clear_registry()
    spec = sp.gen_inference_spec(tape, disc_kinds=('disc',), ties=False, max_priors=2,
                                 smooth=True)
    cfg = gen_bo(tape, spec)
    sched = sr.gen_schedule(tape)
    if sched['mpb'] is None:
        sched['mpb'] = tape.int('mpb', 1, 6)
    precomputed = None
    if cfg['init_form'] == 'precomputed':
        import elfi.clients.native as enative
        elfi.set_client(enative.Client())
        sp.REC.enabled = False
        m0, _ = sp.build_model(elfi, spec, tag='pre')
        b = m0.generate(cfg['n_pre'], outputs=[spec['disc']] + sorted(spec['params']),
                        seed=cfg['seed'] + 1)
        sp.REC.enabled = True
        precomputed = {k: np.array(v) for k, v in b.items()}
    out.sample = {'spec': sp.describe_spec(spec), 'bo': {k: v for k, v in cfg.items()},
                  'schedule': sched}

    def execute(o, sc):
        sp.REC.reset(None)
        r = BoRun(tape, o, spec, cfg, sc, precomputed)
        st = r.drive(cfg['n_evidence'], cfg['via_infer'])
        states = [st]
        if st == 'ok' and cfg['continue']:
            if r.backend is not None:
                r.backend.drain()
            states.append(r.drive(cfg['n_evidence'] + cfg['continue'], False))
        return r, states

    try:
        run_, states = execute(out, sched)
    except Exception as e:
        import traceback
        tb = traceback.extract_tb(e.__traceback__)
        if not any('/elfi/' in fr.filename or '/GPy/' in fr.filename for fr in tb[-4:]):
            raise
        out.inconclusive = True
        out.probes['construct_raised_' + type(e).__name__] += 1
        return out
    if 'cap' in states:
        return out
    if 'error' in states:
        out.probes['raised_' + type(run_.error).__name__] += 1
        out.ev('raised %s' % str(run_.error)[:100])
        if out.violations:
            return out
        out.inconclusive = True
        return out
    res = check_bo(out, run_, cfg, precomputed, spec)
    if res is None:
        return out
    X, Y = res
    idx = [bi for bi, _ in run_.consumed]
    exp_idx = [i for i in range(len(idx) + len(run_.lost)) if i not in run_.lost][:len(idx)]
    if idx != exp_idx:
        out.violate('in-order-exactly-once', '', got=idx[:30], lost=run_.lost)
    # sync-schedule-independent
    if run_.lost:
        # after a failure the schedules legitimately diverge (which batches were already in
        # flight when it surfaced); the evidence clauses above have been judged
        out.probes['run_survived_simulator_failure'] += 1
    elif not cfg['async']:
        ro = Outcome()
        ref_sched = dict(sr.REFERENCE_SCHED, mpb=sched['mpb'])
        ref, rstates = execute(ro, ref_sched)
        if 'ok' in rstates and 'error' not in rstates and 'cap' not in rstates:
            rX, rY = tm_xy(ref.bo.target_model)
            if rX is None:
                rX, rY = np.zeros((0, X.shape[1])), np.zeros((0, 1))
            if rX.shape != X.shape or not np.array_equal(rX, X) or \
                    not np.array_equal(rY.reshape(-1, 1), Y):
                out.violate('sync-schedule-independent', 'evidence', rows=len(X),
                            reference_rows=len(rX))
            else:
                a, b = gp_params(run_.bo.target_model), gp_params(ref.bo.target_model)
                if (a is None) != (b is None) or (a is not None and not np.array_equal(a, b)):
                    out.violate('sync-schedule-independent', 'gp-hyperparameters',
                                got=None if a is None else a.tolist(),
                                reference=None if b is None else b.tolist())
        else:
            out.probes['reference_failed'] += 1
    else:
        out.probes['async_run'] += 1
    out.abstract = (cfg['acq'], cfg['noise_form'], cfg['init_form'], cfg['batch_size'],
                    cfg['bpa'], cfg['async'], tuple(run_.monitor.abstract))
    out.nontrivial = len(run_.acquires) > 0 and (out.stats.get('not_ready', 0) > 0 or
                                                 out.probes.get('speculative_submit', 0) > 0)
    out.probes['acq_' + cfg['acq']] += 1
    out.probes['noise_' + cfg['noise_form']] += 1
    out.probes['init_' + cfg['init_form']] += 1
    out.stats['acquisitions'] += len(run_.acquires)
    out.stats['facade_' + sched['facade']] += 1
    return out

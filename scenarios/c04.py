"""C04 - sampler results do not depend on worker scheduling or parallelism."""
from simkit import simrun as sr
from simkit import spec as sp
from simkit.runner import Outcome

PROPERTY = 'C04'
LEVEL = 'exploration'
PLAN = {'quick': [('sched', 3000)], 'thorough': [('sched', 200000)]}
TIMEOUT = {'quick': 900, 'thorough': 6 * 3600}
RULE = ('each run: tape-generated model (1-3 priors incl. hierarchical, recording simulator, '
        '1-3 summaries, Distance or recording discrepancy with ties) x sampler (Rejection '
        'threshold|quantile|n_sim, SMC thresholds|quantiles 2-4 rounds, AdaptiveDistanceSMC; '
        'optional second sample() on the same sampler) x schedule (facade native|pool by-ref|'
        'pool pickled|ipyparallel|dask, max_parallel_batches 1..9|None, 1-8 workers, eagerness, '
        'stalls, background completions, cancellation races); compared bit-for-bit with the '
        'same workload on the native client with max_parallel_batches=1. distinct = abstract '
        'schedule (event kind, batch index, answer) with task ids erased; non-trivial = at '
        'least one is_ready->False and one speculative submission happened')
COMPONENTS = {
    'real': ['elfi.client.BatchHandler', 'ParameterInference.iterate/_allow_submit/infer',
             'Rejection', 'SMC', 'AdaptiveDistanceSMC', 'elfi.clients.native.Client',
             'elfi.clients.multiprocessing.Client', 'elfi.clients.ipyparallel.Client',
             'elfi.clients.dask.Client', 'compiler', 'loaders', 'Executor', 'pickle'],
    'stub': ['multiprocessing.Pool -> SimPool', 'ipyparallel client/view -> SimIpp',
             'dask.distributed.Client -> SimDask', 'uuid -> counter',
             'numpy.Inf/NINF alias shim',
             'subprocess as seen by elfi.model.tools -> in-process echo'],
}
ASSUMPTIONS = [
    'simulated pools replace OS processes; task and result cross a real pickle round trip',
    'numpy alias shim (np.Inf, np.NINF) installed by the harness; /repo untouched',
    'SMC with >=2 parameters uses n_samples>=2 (GMDistribution squeeze raises otherwise)',
]
EXPECTED_PROBES = {'quick': ['not_ready', 'speculative_submit', 'cancel_rewind',
                             'cancelled_task_ran', 'out_of_order_completion']}


def gen_workload(tape, spec, pil):
    meth = tape.choice('method', ['rejection', 'smc', 'rejection', 'smc', 'adsmc', 'rejection',
                                  'smc', 'atsmc'])
    if spec['nodes'][-1 - len(spec.get('extras', []))]['kind'] == 'adist' or meth == 'adsmc':
        meth = 'adsmc' if any(n['kind'] == 'adist' for n in spec['nodes']) else \
            ('smc' if meth == 'adsmc' else meth)
    if meth == 'atsmc':
        # AdaptiveThresholdSMC (an SMC variant; threshold schedule chosen by density-ratio
        # estimation, which needs a population of some size)
        return {'method': 'atsmc', 'batch_size': tape.int('batch_size', 4, 16),
                'seed': tape.int('seed', 0, 2 ** 20), 'n_samples': tape.int('n_samples', 12, 30),
                'output_names': [], 'objective': {'max_iter': tape.int('max_iter', 2, 3)}}
    if meth == 'rejection':
        wl = sr.gen_rejection_workload(tape, spec, pil, allow_failure=True)
    elif meth == 'smc':
        wl = sr.gen_smc_workload(tape, spec, pil)
    else:
        wl = {'method': 'adsmc', 'batch_size': tape.int('batch_size', 1, 10),
              'seed': tape.int('seed', 0, 2 ** 20),
              'n_samples': tape.int('n_samples', 2, 12), 'output_names': [],
              'objective': {'rounds': tape.int('rounds', 1, 3),
                            'quantile': tape.choice('q', [0.5, 0.3, 0.7])}}
    # optional second call on the same sampler object
    if tape.chance('second_call', 1, 3):
        if wl['method'] == 'rejection':
            w2 = sr.gen_rejection_workload(tape, spec, pil)
            wl['second'] = (w2['n_samples'], w2['objective'])
        elif wl['method'] == 'smc':
            key = list(wl['objective'])[0]
            vals = wl['objective'][key]
            if key == 'thresholds':
                nxt = [vals[-1] * 0.9 if vals[-1] > 0 else vals[-1]]
                nxt = [vals[-1]]
            else:
                nxt = [tape.choice('q2', [0.5, 0.7, 1.0])]
            wl['second'] = (wl['n_samples'], {key: nxt})
        if 'second' in wl and tape.chance('manual_middle', 1, 2):
            wl['manual_middle'] = True
    return wl


def do_calls(run, wl):
    res = [run.sample(wl['n_samples'], **wl['objective'])]
    if 'second' in wl and res[0] is not None:
        run.drain()
        n2, obj2 = wl['second']
        if wl.get('manual_middle'):
            # hand-driven continuation (set_objective + iterate + extract_result) between two
            # sample() calls; what it leaves behind must not leak into the next call
            res.append(run.drive_manually(n2, **obj2))
            if res[-1] is None:
                return res
            run.drain()
        res.append(run.sample(n2, **obj2))
    return res


def run(tape, kind):
    out = Outcome()
    elfi = sr.reset_process_state(tape)
    sp.clear_registry()
    want_ad = tape.chance('adaptive', 1, 6)
    spec = sp.gen_inference_spec(tape, disc_kinds=('adist',) if want_ad else ('disc', 'dist'),
                                 ties=False, far=True, ext=True)
    if not want_ad:
        d = [n for n in spec['nodes'] if n['name'] == 'd'][0]
        if d['kind'] == 'disc' and tape.chance('lattice', 1, 2):
            d['cfg']['lattice'] = tape.choice('lattice_n', [3, 5, 10]) if spec['mode'] == 'mix' \
                else tape.choice('lattice_s', [2, 4, 10])
    pil = sr.pilot(elfi, spec)
    wl = gen_workload(tape, spec, pil)
    sched = sr.gen_schedule(tape)
    out.sample = {'spec': sp.describe_spec(spec), 'workload': {k: v for k, v in wl.items()},
                  'schedule': sched}

    # optionally both executions store outputs in an (in-memory) OutputPool of their own: the
    # pool is written at consumption and read at submission, so it is one more place where the
    # result of a cancelled speculative batch could survive (store sets without parameters;
    # whether pools are transparent at all is C05's business)
    pool_stores = None
    if wl['method'] in ('rejection', 'smc') and tape.chance('with_pool', 1, 4):
        cands = ['sim'] + list(spec['sums']) + [spec['disc']]
        pool_stores = [c for c in cands if tape.chance('pool_store', 1, 2)] or [spec['disc']]
        out.probes['run_with_pool'] += 1
        out.sample['pool_stores'] = pool_stores

    def mkpool():
        return elfi.OutputPool(list(pool_stores)) if pool_stores else None

    # reference execution: native client, one batch at a time
    ref_out = Outcome()
    sp.REC.reset(None)
    ref = sr.SamplerRun(tape, ref_out, spec, wl, sr.REFERENCE_SCHED, quiet=True, pool=mkpool())
    ref_res = do_calls(ref, wl)
    if ref_out.inconclusive:
        out.inconclusive = True
        out.ev('reference hit the step cap')
        return out

    # simulated execution
    sp.REC.reset(None)
    run_ = sr.SamplerRun(tape, out, spec, wl, sched, pool=mkpool())
    res = do_calls(run_, wl)
    if out.inconclusive:
        return out
    sr.check_in_order(out, run_, continuing=(wl['method'] != 'rejection'))
    run_.check_results_stable('same-result')

    # same-result
    for i, (a, b) in enumerate(zip(ref_res, res)):
        if a is None or b is None:
            ea = type(ref.errors[-1]).__name__ if a is None and ref.errors else None
            eb = type(run_.errors[-1]).__name__ if b is None and run_.errors else None
            if ea != eb:
                out.violate('same-result', 'exception-mismatch', call=i, reference=ea,
                            simulated=eb, msg=str((run_.errors or ref.errors)[-1])[:300])
            else:
                out.inconclusive = True
                out.ev('both executions raised %s' % ea)
            break
        d = sr.fp_diff(sr.sample_fingerprint(a), sr.sample_fingerprint(b))
        if d:
            out.violate('same-result', wl['method'], call=i, diff=d)
    n_ref = [bi for (_, bi, _) in ref.consumed]
    n_sim = [bi for (_, bi, _) in run_.consumed]
    if n_ref != n_sim and not out.violations:
        out.violate('same-result', 'consumed-indices', reference=n_ref[:40], simulated=n_sim[:40])

    out.abstract = (wl['method'], tuple(run_.monitor.abstract))
    out.nontrivial = out.stats.get('not_ready', 0) > 0 and \
        out.probes.get('speculative_submit', 0) > 0
    out.stats['facade_' + sched['facade']] += 1
    return out

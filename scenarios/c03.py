"""C03 - compiled execution equals the dataflow meaning of the user's graph.

Random acyclic programs; per program several requests, each on its own handler/context, and
on each context a *sequence* of batches whose supplied-value sets differ (batch overrides,
pool hit / partial hit / miss, with_values, .observed), through a tape-chosen client facade
(pickle boundary included).  Every task execution is judged by a reference interpreter of the
spec that knows nothing about compiler.py / loader.py / executor.py.
"""
import numpy as np

from simkit import backend as bk
from simkit import simrun as sr
from simkit import spec as sp
from simkit.runner import Outcome

PROPERTY = 'C03'
LEVEL = 'exploration'
PLAN = {'quick': [('prog', 12000)], 'thorough': [('prog', 2500000)]}
TIMEOUT = {'quick': 900, 'thorough': 6 * 3600}
RULE = ('each run: random acyclic spec (3-9 nodes of Constant/Operation/Prior/Simulator/'
        'Summary/Discrepancy, fan-in/out, positional + named edges, shared and inline '
        'constants, partial observations, uses_meta, graphs whose observed data depends on a '
        'stochastic node generated on purpose), built in a tape-chosen insertion order; 2-5 '
        'requests: model.generate(outputs subset, with_values subset), node.observed, or a '
        'BatchHandler history on one context (compute(i) in tape-chosen index order, '
        'submit/wait_next with and without batch overrides in both orders, OutputPool hit / '
        'partial hit / miss) on a tape-chosen facade. Judged per task execution: returned '
        'values, argument routing, kwargs, observed twins, exactly-once / never-run, rejection '
        'of stochastic observed data. distinct = (spec shape, request sequence); non-trivial = '
        'two batches with different supplied-value sets shared one context, or the batch '
        'crossed a pickle boundary')
COMPONENTS = {
    'real': ['OutputCompiler/ObservedCompiler/AdditionalNodesCompiler/RandomStateCompiler/'
             'ReduceCompiler', 'ObservedLoader/AdditionalNodesLoader/RandomStateLoader/PoolLoader',
             'Executor.get_execution_order/_run + executor cache', 'BatchHandler.submit/compute/'
             'wait_next', 'ElfiModel.generate / ObservableMixin.observed', 'OutputPool',
             'all four client classes', 'pickle'],
    'stub': ['SimBackend under the clients', 'recording operations / distributions',
             'uuid counter', 'numpy alias shim'],
}
ASSUMPTIONS = [
    'programs are sampled, not enumerated',
    'generator preconditions: distinct node parents per child (a DiGraph has one edge per '
    'pair); discrepancies have no named parents; a simulator whose observed twin is needed has '
    'a given observation; .observed is not requested where the twin would be stochastic; '
    'one ComputationContext per handler (as ELFI itself pairs them)',
    'where the graph has stochastic observed data but the request does not involve that '
    'discrepancy both outcomes (reject / evaluate) are accepted',
]


def obs_name(x):
    return '_%s_observed' % x


def judge(out, idx, order_names, req):
    """Reference interpreter applied to one executed request. Returns False on violation."""
    res = req['result']
    supplied = req['supplied']
    bs, bi = req['bs'], req['bi']
    stores = req.get('stores', ())
    requested = list(req['requested'])
    keys = set(res.keys())
    missing = [r for r in requested if r not in keys]
    if missing:
        out.violate('value', 'missing-output', req=req['desc'], missing=missing)
        return False
    extra = [k for k in keys if k not in requested]
    if any(k not in stores for k in extra):
        out.violate('value', 'unrequested-output', req=req['desc'],
                    extra=[k for k in extra if k not in stores])
        return False
    eff = requested + extra

    def inst_of(r):
        if r.startswith('_') and r.endswith('_observed') and r[1:-9] in idx:
            return ('obs', r[1:-9])
        return ('sim', r)

    insts = set()
    for r in eff:
        insts |= sp.twin_closure(idx, inst_of(r), supplied)
    calls = [dict(c, matched=False) for c in req['calls']]
    vals = {}

    def val(inst):
        return vals[inst]

    def pval(p, twin):
        if not isinstance(p, str):
            return sp.dg(p)
        return val(sp.twin_or_self(idx, p) if twin else ('sim', p))

    def match(x, which, pos, named, observed):
        cands = [c for c in calls if c['node'] == x and not c['matched']
                 and c['pos'] == pos and c['named'] == named and
                 (c['observed'] == observed or (observed is None and not c['has_obs']))]
        if cands:
            # the simulated node and its observed twin may receive identical arguments (all
            # parents constant): tell them apart by the run-time kwargs a twin never gets
            def plain(c):
                return c['bs'] is None and not c['has_rs'] and c['meta'] is None
            if which == 'observed-twin':
                cands.sort(key=lambda c: (not plain(c), c['seq']))
            else:
                cands.sort(key=lambda c: (plain(c), c['seq']))
            cands[0]['matched'] = True
            return cands[0]
        allc = [c for c in calls if c['node'] == x]
        if not allc:
            out.violate('exactly-once', 'missing', req=req['desc'], node=x, instance=which)
        else:
            out.violate('args', which, req=req['desc'], node=x, expected_pos=pos,
                        expected_named=named, expected_observed=observed,
                        logged=[{'pos': c['pos'], 'named': c['named'], 'observed': c['observed']}
                                for c in allc][:3])
        return None

    for x in order_names:
        node = idx[x]
        kind = node['kind']
        # observed tuple first (needed by the simulated discrepancy)
        if ('tw', x) in insts:
            vals[('tw', x)] = [pval(p, True) for k, p in sp.all_parents(node)
                               if isinstance(k, int)]
        if ('sim', x) in insts:
            if x in supplied:
                vals[('sim', x)] = sp.dg(supplied[x])
            elif kind == 'const':
                vals[('sim', x)] = sp.dg(node['value'])
            else:
                pos = [pval(p, False) for k, p in sp.all_parents(node) if isinstance(k, int)]
                named = {k: pval(p, False) for k, p in sp.all_parents(node)
                         if not isinstance(k, int)}
                observed = vals[('tw', x)] if kind == 'disc' else None
                c = match(x, 'simulated', pos, named, observed)
                if c is None:
                    return False
                vals[('sim', x)] = c['out']
                # kwargs-exactly
                wants_bs = kind in ('prior', 'sim')
                wants_rs = kind in sp.STOCHASTIC_KINDS
                wants_meta = bool(node.get('cfg', {}).get('use_meta'))
                problems = []
                if wants_bs != (c['bs'] is not None):
                    problems.append('batch_size presence')
                elif wants_bs and c['bs'] != bs:
                    problems.append('batch_size value %r != %r' % (c['bs'], bs))
                if wants_rs != bool(c['has_rs']):
                    problems.append('random_state presence')
                if wants_meta != (c['meta'] is not None):
                    problems.append('meta presence')
                elif wants_meta and (not isinstance(c['meta'], dict) or
                                     c['meta'].get('batch_index') != bi):
                    problems.append('meta batch_index %r != %r' % (c['meta'], bi))
                if (kind == 'disc') != bool(c['has_obs']):
                    problems.append('observed presence')
                if problems:
                    out.violate('kwargs-exactly', problems[0].split()[0], req=req['desc'], node=x,
                                problems=problems)
                    return False
        if ('obs', x) in insts:
            if node.get('observed') is not None:
                vals[('obs', x)] = sp.dg(node['observed'])
            elif kind == 'sim':
                raise RuntimeError('generator precondition: twin of unobserved simulator')
            else:
                pos = [pval(p, True) for k, p in sp.all_parents(node) if isinstance(k, int)]
                named = {k: pval(p, True) for k, p in sp.all_parents(node)
                         if not isinstance(k, int)}
                c = match(x, 'observed-twin', pos, named, None)
                if c is None:
                    out.violations[-1].clause = 'observed-twin' \
                        if out.violations[-1].clause == 'args' else out.violations[-1].clause
                    return False
                vals[('obs', x)] = c['out']
                if c['bs'] is not None or c['has_rs'] or c['meta'] is not None or c['has_obs']:
                    out.violate('kwargs-exactly', 'twin', req=req['desc'], node=x)
                    return False
    left = [c for c in calls if not c['matched']]
    if left:
        c = left[0]
        needed_nodes = {x for (_, x) in insts}
        if c['node'] in supplied:
            sig = 'supplied-node-ran'
        elif c['node'] not in needed_nodes:
            sig = 'unneeded-node-ran'
        else:
            sig = 'duplicate'
        out.violate('never-run' if sig != 'duplicate' else 'exactly-once', sig, req=req['desc'],
                    node=c['node'], extra_calls=len(left))
        return False
    for r in eff:
        if sp.dg(res[r]) != val(inst_of(r)):
            out.violate('value', 'observed-twin' if inst_of(r)[0] == 'obs' else '',
                        req=req['desc'], output=r)
            return False
    return True


def run(tape, kind):
    out = Outcome()
    elfi = sr.reset_process_state(tape)
    sp.clear_registry()
    spec = sp.gen_dag_spec(tape)
    idx = sp.spec_index(spec)
    order_names = [n['name'] for n in spec['nodes']]
    order = sp.random_insertion_order(tape, spec)
    model, refs = sp.build_dag_model(elfi, spec, order=order)
    fac = tape.choice('facade', bk.FACADES)
    sched = sr.gen_schedule(tape)
    sched['facade'] = fac
    backend = None
    if fac != 'native':
        backend = bk.SimBackend(tape, out, n_workers=sched['workers'], pickled=(fac != 'pool_ref'),
                                eager=sched['eager'], bg_max=sched['bg_max'], stall=sched['stall'])
    sp.REC.reset(backend)
    client = bk.make_client(elfi, fac, backend)
    elfi.set_client(client)
    cur_req = [None]
    sp.mark_client(client, lambda: cur_req[0])
    discs = [n['name'] for n in spec['nodes'] if n['kind'] == 'disc']
    bad_discs = {d for d in discs if sp.observed_depends_on_stochastic(idx, d)}
    public = order_names
    n_req = tape.int('n_requests', 2, 5)
    abstract = []
    mixed_ctx = False
    req_counter = [0]

    def involved(requested, supplied):
        insts = set()
        for r in requested:
            if r.startswith('_'):
                continue
            insts |= sp.twin_closure(idx, ('sim', r), supplied)
        return any(k == 'sim' and x in bad_discs for (k, x) in insts)

    def finish(req, fn):
        """Execute one request and judge it."""
        req_counter[0] += 1
        rid = req_counter[0]
        cur_req[0] = rid
        start = len(sp.REC.calls)
        exc = None
        res = None
        try:
            res = fn()
        except Exception as e:
            exc = e
        finally:
            cur_req[0] = None
        req['calls'] = [c for c in sp.REC.calls if c['req'] == rid]
        out.ev('R %s -> %s' % (req['desc'], 'ok' if exc is None else type(exc).__name__))
        inv = involved(req['requested'], req['supplied'])
        if exc is not None:
            if inv or bad_discs:
                out.probes['stochastic_observed_rejected'] += 1
                return None
            msg = str(exc)
            sig = type(exc).__name__
            if 'is not in the digraph' in msg:
                sig = 'isolated-node'
            out.violate('no-crash', sig, req=req['desc'], error=msg[:200])
            return False
        if inv:
            out.violate('stochastic-observed-rejected', '', req=req['desc'],
                        discrepancies=sorted(bad_discs))
            return False
        req['result'] = res if isinstance(res, dict) else res[0]
        return judge(out, idx, order_names, req)

    def random_value(name, bs):
        shape = idx[name].get('cfg', {}).get('shape', ()) if idx[name]['kind'] not in (
            'const', 'prior') else ()
        k = int(np.prod(shape)) if shape else 1
        base = np.arange(bs * k, dtype=float).reshape((bs,) + tuple(shape))
        return base * 0.37 + tape.int('supplied_value', 1, 50) * 0.11

    last_gen_outs = [None]
    for rq in range(n_req):
        if rq and tape.chance('observations_replaced', 1, 4):
            # between two requests the user gives new observed data for one node: in place
            # (model.observed[x] = y) or by replacing the whole dict (model.observed = {...});
            # every later request must see the new observation
            cands = [x for x in order_names if idx[x]['kind'] in sp.OBSERVABLE_KINDS and
                     idx[x].get('observed') is not None]
            if cands:
                x = tape.choice('reobserved_node', cands)
                new = np.asarray(idx[x]['observed']) + 0.25 * tape.int('observed_shift', 1, 9)
                if tape.chance('whole_dict_replaced', 1, 2):
                    d_ = dict(model.observed)
                    d_[x] = new
                    model.observed = d_
                    out.probes['observed_dict_replaced'] += 1
                else:
                    model.observed[x] = new
                    out.probes['observed_item_replaced'] += 1
                idx[x]['observed'] = new
                out.ev('E new observation for %s' % x)
        rkind = tape.choice('request_kind', ['generate', 'handler', 'handler', 'observed'])
        bs = tape.int('batch_size', 1, 4)
        seed = tape.int('seed', 0, 9999)
        if rkind == 'observed':
            cands = []
            for x in order_names:
                if idx[x]['kind'] in sp.OBSERVABLE_KINDS:
                    cl = sp.twin_closure(idx, ('obs', x))
                    if any(k == 'sim' and idx[y]['kind'] in sp.STOCHASTIC_KINDS for k, y in cl):
                        continue
                    if any(k == 'obs' and idx[y]['kind'] == 'sim' and
                           idx[y].get('observed') is None for k, y in cl):
                        continue
                    cands.append(x)
            if not cands:
                rkind = 'generate'
            else:
                x = tape.choice('observed_node', cands)
                req = {'desc': '%s.observed' % x, 'requested': [obs_name(x)], 'supplied': {},
                       'bs': 1, 'bi': 0}
                abstract.append(('observed', idx[x]['kind']))
                r = finish(req, lambda: {obs_name(x): refs[x].observed})
                if r is False:
                    break
                continue
        if rkind == 'generate':
            outs = tape.subset('outputs', public, 1, 2) or [tape.choice('output', public)]
            if last_gen_outs[0] and tape.chance('same_outputs_again', 1, 3):
                outs = list(last_gen_outs[0])      # the same request once more on this model
            last_gen_outs[0] = list(outs)
            wv_names = tape.subset('with_values', [p for p in public if idx[p]['kind'] != 'const'],
                                   1, 4) if tape.chance('use_with_values', 1, 2) else []
            wv = {n: random_value(n, bs) for n in wv_names}
            req = {'desc': 'generate(bs=%d,outputs=%s,with_values=%s)' % (bs, outs, wv_names),
                   'requested': outs, 'supplied': wv, 'bs': bs, 'bi': 0,
                   'stores': tuple(wv_names)}
            abstract.append(('generate', len(outs), len(wv_names)))
            r = finish(req, lambda: model.generate(bs, outputs=list(outs),
                                                   with_values=wv or None, seed=seed))
            if r is False:
                break
            continue
        # ---- a handler history on one context
        outs = tape.subset('outputs', public, 1, 2) or [tape.choice('output', public)]
        store_names = tape.subset('pool_stores', [p for p in public if idx[p]['kind'] != 'const'],
                                  1, 3) if tape.chance('use_pool', 1, 2) else []
        pool = elfi.OutputPool(store_names) if store_names else None
        try:
            ctx = elfi.ComputationContext(batch_size=bs, seed=seed, pool=pool)
            handler = elfi.client.BatchHandler(model, ctx, output_names=list(outs), client=client)
        except Exception as e:
            if bad_discs:
                out.probes['stochastic_observed_rejected'] += 1
                out.ev('R handler(%s) compile rejected' % outs)
                continue
            sig = 'isolated-node' if 'is not in the digraph' in str(e) else type(e).__name__
            out.violate('no-crash', sig, req='BatchHandler(%s)' % outs, error=str(e)[:200])
            break
        params = [p for p in public if idx[p]['kind'] == 'prior']
        supplied_sets = set()
        stop = False
        for step in range(tape.int('n_batches', 1, 5)):
            how = tape.choice('batch_via', ['compute', 'submit', 'submit_override', 'submit_pair',
                                            'reset'])
            if how == 'reset':
                # the handler is rewound (what set_objective / a new round does): the indices
                # submitted next are indices the pool may already hold - a supplied value
                # (override) must still win over what the pool has for that node
                handler.reset()
                out.probes['handler_reset'] += 1
                abstract.append((how, 0, 0))
                continue
            if how == 'submit_pair':
                # two batches are loaded and submitted before the first one is fetched (what
                # speculative submission does); each is judged with its own metadata
                reqs_ = []
                rids_ = []
                exc = None
                try:
                    for _ in range(2):
                        bi = handler.next_index
                        sup = dict(pool.get_batch(bi)) if pool is not None else {}
                        req_counter[0] += 1
                        rid = req_counter[0]
                        cur_req[0] = rid
                        handler.submit(None)
                        cur_req[0] = None
                        reqs_.append({'desc': 'handler(%s).submit_pair@%d pool=%s hit=%s' % (
                            outs, bi, store_names, sorted(sup)), 'requested': outs,
                            'supplied': sup, 'bs': bs, 'bi': bi, 'stores': tuple(store_names)})
                        rids_.append(rid)
                    for q_ in reqs_:
                        b_, i_ = handler.wait_next()
                        if i_ != q_['bi']:
                            raise RuntimeError('harness: index mismatch')
                        q_['result'] = b_
                except RuntimeError:
                    raise
                except Exception as e:
                    exc = e
                finally:
                    cur_req[0] = None
                out.probes['two_batches_loaded_before_first_ran'] += 1
                r = True
                if exc is not None:
                    out.ev('R submit_pair -> %s' % type(exc).__name__)
                    if not bad_discs:
                        msg = str(exc)
                        out.violate('no-crash', 'isolated-node' if 'is not in the digraph' in msg
                                    else type(exc).__name__, req=reqs_[0]['desc'] if reqs_
                                    else 'submit_pair', error=msg[:200])
                        r = False
                else:
                    for q_, rid in zip(reqs_, rids_):
                        q_['calls'] = [c for c in sp.REC.calls if c['req'] == rid]
                        out.ev('R %s -> ok' % q_['desc'])
                        if involved(q_['requested'], q_['supplied']):
                            out.violate('stochastic-observed-rejected', '', req=q_['desc'])
                            r = False
                            break
                        if judge(out, idx, order_names, q_) is False:
                            r = False
                            break
                        supplied_sets.add(tuple(sorted(q_['supplied'])))
                abstract.append((how, len(outs), 0))
                if r is False:
                    stop = True
                    break
                continue
            if how == 'compute':
                bi = tape.int('batch_index', 0, 4)
                sup = dict(pool.get_batch(bi)) if pool is not None else {}
                req = {'desc': 'handler(%s).compute(%d) pool=%s hit=%s' % (
                    outs, bi, store_names, sorted(sup)), 'requested': outs, 'supplied': sup,
                    'bs': bs, 'bi': bi, 'stores': tuple(store_names)}
                r = finish(req, lambda: handler.compute(bi))
            else:
                bi = handler.next_index
                sup = dict(pool.get_batch(bi)) if pool is not None else {}
                ov = {}
                # overrides (the SMC / BO pattern) only for parameters that are part of the
                # compiled net, i.e. requested or ancestors of something requested
                inn = set()
                for r_ in outs:
                    inn |= {x for (k_, x) in sp.twin_closure(idx, ('sim', r_)) if k_ == 'sim'}
                oparams = [p for p in params if p in inn]
                if how == 'submit_override' and oparams:
                    for p in tape.subset('override', oparams, 1, 2) or [oparams[0]]:
                        ov[p] = random_value(p, bs)
                sup2 = dict(sup)
                sup2.update(ov)
                req = {'desc': 'handler(%s).submit(%s)@%d pool=%s hit=%s' % (
                    outs, sorted(ov), bi, store_names, sorted(sup)), 'requested': outs,
                    'supplied': sup2, 'bs': bs, 'bi': bi, 'stores': tuple(store_names)}

                def go():
                    handler.submit(ov or None)
                    if backend is not None:
                        backend._background()
                    b, i = handler.wait_next()
                    if i != bi:
                        raise RuntimeError('harness: index mismatch')
                    return b
                r = finish(req, go)
            supplied_sets.add(tuple(sorted(req['supplied'])))
            abstract.append((how, len(outs), len(req['supplied'])))
            if r is False:
                stop = True
                break
        if len(supplied_sets) > 1:
            mixed_ctx = True
            out.probes['mixed_supplied_sets_on_one_context'] += 1
        if stop:
            break
    kinds = tuple(n['kind'][0] for n in spec['nodes'])
    out.abstract = (kinds, tuple(abstract))
    out.nontrivial = mixed_ctx or (backend is not None and backend.pickled)
    out.sample = {'spec': sp.describe_dag(spec), 'facade': fac,
                  'requests': [l for l in out.trace if l.startswith('R ')][:12]}
    if bad_discs:
        out.probes['spec_with_stochastic_observed'] += 1
    out.stats['facade_' + fac] += 1
    return out

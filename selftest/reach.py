#!/venv/bin/python
"""reach.py <Cxx>[,Cyy...] [--runs N] [--modules a.py,b.py]: which lines / branches of elfi do the
scenario's generated runs actually execute?

Measures reach (guidance: "a probe stuck at zero means the workload or fault mix must change") at
source level: N runs of every kind of the quick plan are executed in this process under
coverage.py (branch mode, source = the elfi package that the checks import), and the lines and
branch arcs that were never taken are printed per module.  Lines that stay un-executed in the
functions a property is anchored in are input features the generators do not produce.

Not a check: nothing here decides a property.
"""
import argparse
import importlib
import os
import sys

HERE = os.path.dirname(os.path.abspath(__file__))
VERIF = os.path.dirname(HERE)
sys.path.insert(0, VERIF)

from simkit import env  # noqa: E402

DEFAULT_MODULES = ['client.py', 'executor.py', 'compiler.py', 'loader.py', 'store.py', 'utils.py',
                   'model/elfi_model.py', 'model/graphical_model.py', 'model/extensions.py',
                   'model/utils.py', 'methods/inference/samplers.py',
                   'methods/inference/parameter_inference.py', 'methods/inference/bolfi.py',
                   'methods/bo/acquisition.py', 'methods/bo/gpy_regression.py',
                   'methods/bo/utils.py', 'methods/utils.py', 'clients/native.py',
                   'clients/multiprocessing.py', 'clients/ipyparallel.py', 'clients/dask.py']


def main():
    ap = argparse.ArgumentParser()
    ap.add_argument('props')
    ap.add_argument('--runs', type=int, default=150)
    ap.add_argument('--modules', default=None)
    ap.add_argument('--seed', type=int, default=0)
    a = ap.parse_args()
    env.ensure_env([os.path.abspath(__file__)] + sys.argv[1:])
    import coverage
    root = os.path.join(env.REPO, 'elfi')
    cov = coverage.Coverage(branch=True, include=[root + '/*'], data_file=None)
    cov.start()                 # before the import, so that def / class lines count as executed
    env.import_elfi()
    from simkit.runner import run_seed_for, execute
    from simkit.tape import Tape
    nviol = 0
    for prop in a.props.split(','):
        mod = importlib.import_module('scenarios.' + prop.lower())
        for kind, _n in mod.PLAN['quick']:
            for idx in range(a.runs):
                out = execute(mod, kind, Tape(run_seed_for(mod.PROPERTY, a.seed, kind, idx),
                                              index=idx))
                nviol += len(out.violations)
    cov.stop()
    mods = (a.modules.split(',') if a.modules else DEFAULT_MODULES)
    print('runs per kind: %d, violations seen: %d' % (a.runs, nviol))
    for m in mods:
        path = os.path.join(root, m)
        if not os.path.exists(path):
            continue
        an = cov._analyze(path)
        missing = sorted(an.missing)
        arcs = sorted(an.arcs_missing()) if an.has_arcs else []
        # only arcs whose source line was executed are informative (branch never taken)
        arcs = [(s, d) for (s, d) in arcs if s not in an.missing and s > 0]
        print('== %s: %d statements, %d never executed; %d branch arcs never taken' % (
            m, len(an.statements), len(missing), len(arcs)))
        print('   missing lines:', _ranges(missing))
        print('   missing arcs :', ' '.join('%d->%d' % x for x in arcs))


def _ranges(xs):
    out = []
    i = 0
    while i < len(xs):
        j = i
        while j + 1 < len(xs) and xs[j + 1] == xs[j] + 1:
            j += 1
        out.append('%d' % xs[i] if i == j else '%d-%d' % (xs[i], xs[j]))
        i = j + 1
    return ' '.join(out)


if __name__ == '__main__':
    main()

"""Realistic source mutations each check must catch (DESIGN.md section 4, 'M' lists).

Each entry: id, props (checks expected to exit 1), what, edits [(file, old, new)].
Every mutant keeps the 103 stable tests green (they never reach this code, see DESIGN 1).
"""

PI = 'elfi/methods/inference/parameter_inference.py'
SA = 'elfi/methods/inference/samplers.py'
CL = 'elfi/client.py'

MUTANTS = [
    # ---------------- C04
    {'id': 'c04-no-rewind', 'props': ['C04'], 'what': 'cancel_pending does not rewind the next index',
     'edits': [(CL, "            self._next_batch_index = batch_index\n\n    def reset",
                "            pass\n\n    def reset")]},
    {'id': 'c04-smc-no-cancel', 'props': ['C04'], 'what': 'SMC does not cancel speculative batches at a round end',
     'edits': [(SA, "            self.batches.cancel_pending()\n            if self.bar:\n", "            if self.bar:\n")]},
    {'id': 'c04-smc-stale-round-rng', 'props': ['C04'], 'what': 'SMC keeps the previous round proposal generator',
     'edits': [(SA, "        self._round_random_state = np.random.RandomState(seed)\n",
                "        if self._round_random_state is None:\n            self._round_random_state = np.random.RandomState(seed)\n")]},
    {'id': 'c04-ignore-mpb', 'props': ['C04'], 'what': '_allow_submit ignores max_parallel_batches',
     'edits': [(PI, "        return (self.max_parallel_batches > self.batches.num_pending\n                and",
                "        return (self.max_parallel_batches + 1 > self.batches.num_pending\n                and")]},
    {'id': 'c04-wait-newest', 'props': ['C04'], 'what': 'wait_next pops the newest pending batch',
     'edits': [(CL, "self._pending_batches.popitem(last=False)", "self._pending_batches.popitem(last=True)")]},
    {'id': 'c04-objective-pending', 'props': ['C04'], 'what': 'Rejection objective estimate reads batches.num_pending',
     'edits': [(SA, "            n_batches = ceil(n_batches)\n",
                "            n_batches = ceil(n_batches) + self.batches.num_pending\n")]},
    {'id': 'c04-global-rng-proposal', 'props': ['C04'], 'what': 'SMC proposals drawn from np.random instead of the round generator',
     'edits': [(SA, "                                    random_state=self._round_random_state)",
                "                                    random_state=None)")]},
    {'id': 'c04-no-final-cancel', 'props': ['C04'], 'what': 'infer() does not cancel pending batches at the end',
     'edits': [(PI, "        self.batches.cancel_pending()\n        if vis:", "        if vis:")]},
    # ---------------- C01
    {'id': 'c01-tail-off-by-one', 'props': ['C01'], 'what': 'accepted rows written one slot before the tail',
     'edits': [(SA, "                v[-num_accepted:] = batch[node][accepted]", "                v[-num_accepted - 1:-1] = batch[node][accepted]")]},
    {'id': 'c01-buffer-short', 'props': ['C01'], 'what': 'result buffer one row short: a fully accepted batch overwrites the current n-th best draw',
     'edits': [(SA, "            shape = (self.objective['n_samples'] +\n                     self.batch_size, ) + nbatch.shape[1:]", "            shape = (self.objective['n_samples'] +\n                     self.batch_size - 1, ) + nbatch.shape[1:]")]},
    {'id': 'c01-extract-plus-one', 'props': ['C01'], 'what': 'extract_result slices n_samples+1 rows',
     'edits': [(SA, "            outputs[k] = v[:self.objective['n_samples']]\n\n        return Sample(", "            outputs[k] = v[:self.objective['n_samples'] + 1]\n\n        return Sample(")]},
    {'id': 'c01-budget-floor', 'props': ['C01'], 'what': 'budget converted to batches with floor instead of ceil',
     'edits': [(SA, "        if n_sim:\n            n_batches = ceil(n_sim / self.batch_size)", "        if n_sim:\n            n_batches = max(1, n_sim // self.batch_size)")]},
    {'id': 'c01-threshold-off', 'props': ['C01'], 'what': 'reported threshold taken one row too early',
     'edits': [(SA, "        s['threshold'] = s['samples'][self.discrepancy_name][o['n_samples'] - 1]", "        s['threshold'] = s['samples'][self.discrepancy_name][max(0, o['n_samples'] - 2)]")]},
    # ---------------- C07
    {'id': 'c07-weights-swapped', 'props': ['C07'], 'what': 'importance weight numerator/denominator swapped',
     'edits': [(SA, "            w = np.exp(p_logpdf - q_logpdf)", "            w = np.exp(q_logpdf - p_logpdf)")]},
    {'id': 'c07-stale-previous', 'props': ['C07'], 'what': 'mixture taken from the population before last',
     'edits': [(SA, "        sample = self._populations[-1]\n        return sample.means", "        sample = self._populations[max(0, len(self._populations) - 2)]\n        return sample.means")]},
    {'id': 'c07-cov-no-factor', 'props': ['C07'], 'what': 'proposal covariance without the factor 2',
     'edits': [(SA, "        cov = 2 * np.diag(weighted_var(params, w))", "        cov = np.diag(weighted_var(params, w))")]},
    {'id': 'c07-cov-unweighted', 'props': ['C07'], 'what': 'proposal covariance from the un-weighted variance',
     'edits': [(SA, "        cov = 2 * np.diag(weighted_var(params, w))", "        cov = 2 * np.diag(weighted_var(params))")]},
    {'id': 'c07-proposal-unconditioned', 'props': ['C07'], 'what': 'proposal not conditioned on the prior support',
     'edits': [(SA, "                                    prior_logpdf=self._prior.logpdf,\n", "                                    prior_logpdf=None,\n")]},
    {'id': 'c07-unweighted-quantile', 'props': ['C07'], 'what': 'round threshold from the un-weighted quantile',
     'edits': [(SA, "            weights=previous_population.weights)", "            weights=None)")]},
    # ---------------- C06
    {'id': 'c06-header-before-data', 'props': ['C06'], 'what': 'append writes the new header before the data',
     'edits': [('elfi/store.py', "        pos = self.header_length + self.size * self.itemsize\n        self.fs.seek(pos)\n        self.fs.write(array.tobytes('C'))\n        self.shape = (self.shape[0] + len(array), ) + self.shape[1:]\n\n        # Only prepare the header bytes, need to be flushed to take effect\n        self._prepare_header_data()\n",
                "        pos = self.header_length + self.size * self.itemsize\n        self.shape = (self.shape[0] + len(array), ) + self.shape[1:]\n        self._prepare_header_data()\n        self._write_header_data()\n        self.fs.seek(pos)\n        self.fs.write(array.tobytes('C'))\n")]},
    {'id': 'c06-flush-no-header', 'props': ['C06'], 'what': 'flush does not write the pending header',
     'edits': [('elfi/store.py', '        """Flush any changes in memory to array."""\n        self._write_header_data()\n        self.fs.flush()', '        """Flush any changes in memory to array."""\n        self.fs.flush()')]},
    {'id': 'c06-getstate-no-flush', 'props': ['C06'], 'what': '__getstate__ does not flush before pickling',
     'edits': [('elfi/store.py', "        if not self.fs.closed:\n            self.flush()\n        return {'filename': self.filename}", "        return {'filename': self.filename}")]},
    {'id': 'c06-append-pos-rows', 'props': ['C06'], 'what': 'append offset ignores the row size (wrong for multi-dimensional rows)',
     'edits': [('elfi/store.py', "        # Append new data\n        pos = self.header_length + self.size * self.itemsize", "        # Append new data\n        pos = self.header_length + self.shape[0] * self.itemsize")]},
    {'id': 'c06-delete-one-too-many', 'props': ['C06'], 'what': 'NpyStore.__delitem__ truncates one batch too many',
     'edits': [('elfi/store.py', "        self.array.truncate(sl.start)", "        self.array.truncate(max(0, sl.start - self.batch_size))")]},
    {'id': 'c06-append-stale-memmap', 'props': ['C06'], 'what': 'append does not invalidate the memmap',
     'edits': [('elfi/store.py', "        self._prepare_header_data()\n\n        # Invalidate the memmap\n        self._memmap = None\n\n    @property\n    def memmap", "        self._prepare_header_data()\n\n    @property\n    def memmap")]},
    {'id': 'c06-close-no-header', 'props': ['C06'], 'what': 'close does not write the pending header',
     'edits': [('elfi/store.py', "        if self.initialized:\n            self._write_header_data()\n            self.fs.close()", "        if self.initialized:\n            self.fs.close()")]},
    # ---------------- C15
    {'id': 'c15-first-draw', 'props': ['C15'], 'what': 'get_sub_seed returns the first draw of the last batch',
     'edits': [('elfi/utils.py', "    return sub_seeds[-1]", "    return sub_seeds[0]")]},
    {'id': 'c15-resume-at-equal', 'props': ['C15'], 'what': 'cache resumed when it already holds index+1 values',
     'edits': [('elfi/utils.py', "    if cache and len(cache['seen']) < sub_seed_index + 1:", "    if cache and len(cache['seen']) <= sub_seed_index + 1:")]},
    {'id': 'c15-no-dedupe', 'props': ['C15'], 'what': 'duplicates in the draw stream are not skipped',
     'edits': [('elfi/utils.py', "        seen.update(sub_seeds)\n        n_unique = len(seen)", "        seen.update(sub_seeds)\n        n_unique += len(sub_seeds)")]},
    {'id': 'c15-range-off-by-one', 'props': ['C15'], 'what': 'index == high is not rejected',
     'edits': [('elfi/utils.py', "    elif sub_seed_index >= high:", "    elif sub_seed_index > high:")]},
    {'id': 'c15-cache-state-shared', 'props': ['C15'], 'what': 'cache keeps the generator but forgets the seen set on restart',
     'edits': [('elfi/utils.py', "        random_state = np.random.RandomState(seed)\n        seen = set()", "        random_state = np.random.RandomState(seed)\n        seen = cache['seen'] if cache and 'seen' in cache else set()")]},
]

"""Realistic source mutations each check must catch (DESIGN.md section 4, 'M' lists).

Each entry: id, props (checks expected to exit 1), what, edits [(file, old, new)].
Every mutant keeps the 103 stable tests green (they never reach this code, see DESIGN 1).
"""

PI = 'elfi/methods/inference/parameter_inference.py'
SA = 'elfi/methods/inference/samplers.py'
CL = 'elfi/client.py'

MUTANTS = [
    # ---------------- C04
    {'id': 'c04-no-rewind', 'props': ['C04'], 'what': 'cancel_pending does not rewind the next index',
     'edits': [(CL, "            self._next_batch_index = batch_index\n\n    def reset",
                "            pass\n\n    def reset")]},
    {'id': 'c04-smc-no-cancel', 'props': ['C04'], 'what': 'SMC does not cancel speculative batches at a round end',
     'edits': [(SA, "            self.batches.cancel_pending()\n            if self.bar:\n", "            if self.bar:\n")]},
    {'id': 'c04-smc-stale-round-rng', 'props': ['C04'], 'what': 'SMC keeps the previous round proposal generator',
     'edits': [(SA, "        self._round_random_state = np.random.RandomState(seed)\n",
                "        if self._round_random_state is None:\n            self._round_random_state = np.random.RandomState(seed)\n")]},
    {'id': 'c04-ignore-mpb', 'props': ['C04'], 'what': '_allow_submit ignores max_parallel_batches',
     'edits': [(PI, "        return (self.max_parallel_batches > self.batches.num_pending\n                and",
                "        return (self.max_parallel_batches + 1 > self.batches.num_pending\n                and")]},
    {'id': 'c04-wait-newest', 'props': ['C04'], 'what': 'wait_next pops the newest pending batch',
     'edits': [(CL, "self._pending_batches.popitem(last=False)", "self._pending_batches.popitem(last=True)")]},
    {'id': 'c04-objective-pending', 'props': ['C04'], 'what': 'Rejection objective estimate reads batches.num_pending',
     'edits': [(SA, "            n_batches = ceil(n_batches)\n",
                "            n_batches = ceil(n_batches) + self.batches.num_pending\n")]},
    {'id': 'c04-global-rng-proposal', 'props': ['C04'], 'what': 'SMC proposals drawn from np.random instead of the round generator',
     'edits': [(SA, "                                    random_state=self._round_random_state)",
                "                                    random_state=None)")]},
    {'id': 'c04-no-final-cancel', 'props': ['C04'], 'what': 'infer() does not cancel pending batches at the end',
     'edits': [(PI, "        self.batches.cancel_pending()\n        if vis:", "        if vis:")]},
    # ---------------- C01
    {'id': 'c01-tail-off-by-one', 'props': ['C01'], 'what': 'accepted rows written one slot before the tail',
     'edits': [(SA, "                v[-num_accepted:] = batch[node][accepted]", "                v[-num_accepted - 1:-1] = batch[node][accepted]")]},
    {'id': 'c01-stable-sort-payload', 'props': ['C01'], 'what': 'payload outputs sorted with a stable argsort, discrepancy with quicksort: rows misalign on ties',
     'edits': [(SA, "        for k, v in samples.items():\n            v[:] = v[sort_mask]",
                "        stable_mask = np.argsort(sort_distance, kind='stable')\n        for k, v in samples.items():\n            v[:] = v[sort_mask] if k == self.discrepancy_name else v[stable_mask]")]},
    {'id': 'c01-extract-plus-one', 'props': ['C01'], 'what': 'extract_result slices n_samples+1 rows',
     'edits': [(SA, "            outputs[k] = v[:self.objective['n_samples']]\n\n        return Sample(", "            outputs[k] = v[:self.objective['n_samples'] + 1]\n\n        return Sample(")]},
    {'id': 'c01-strict-threshold', 'props': ['C01'], 'what': '< instead of <= against the threshold when accepting',
     'edits': [(SA, "            accepted = batch[self.discrepancy_name] <= self.objective.get('threshold')", "            accepted = batch[self.discrepancy_name] < self.objective.get('threshold')")]},
    {'id': 'c01-budget-floor', 'props': ['C01'], 'what': 'budget converted to batches with floor instead of ceil',
     'edits': [(SA, "        if n_sim:\n            n_batches = ceil(n_sim / self.batch_size)", "        if n_sim:\n            n_batches = max(1, n_sim // self.batch_size)")]},
    {'id': 'c01-threshold-off', 'props': ['C01'], 'what': 'reported threshold taken one row too early',
     'edits': [(SA, "        s['threshold'] = s['samples'][self.discrepancy_name][o['n_samples'] - 1]", "        s['threshold'] = s['samples'][self.discrepancy_name][max(0, o['n_samples'] - 2)]")]},
    # ---------------- C07
    {'id': 'c07-weights-swapped', 'props': ['C07'], 'what': 'importance weight numerator/denominator swapped',
     'edits': [(SA, "            w = np.exp(p_logpdf - q_logpdf)", "            w = np.exp(q_logpdf - p_logpdf)")]},
    {'id': 'c07-stale-previous', 'props': ['C07'], 'what': 'mixture taken from the population before last',
     'edits': [(SA, "        sample = self._populations[-1]\n        return sample.means", "        sample = self._populations[max(0, len(self._populations) - 2)]\n        return sample.means")]},
    {'id': 'c07-cov-no-factor', 'props': ['C07'], 'what': 'proposal covariance without the factor 2',
     'edits': [(SA, "        cov = 2 * np.diag(weighted_var(params, w))", "        cov = np.diag(weighted_var(params, w))")]},
    {'id': 'c07-cov-unweighted', 'props': ['C07'], 'what': 'proposal covariance from the un-weighted variance',
     'edits': [(SA, "        cov = 2 * np.diag(weighted_var(params, w))", "        cov = 2 * np.diag(weighted_var(params))")]},
    {'id': 'c07-proposal-unconditioned', 'props': ['C07'], 'what': 'proposal not conditioned on the prior support',
     'edits': [(SA, "                                    prior_logpdf=self._prior.logpdf,\n", "                                    prior_logpdf=None,\n")]},
    {'id': 'c07-unweighted-quantile', 'props': ['C07'], 'what': 'round threshold from the un-weighted quantile',
     'edits': [(SA, "            weights=previous_population.weights)", "            weights=None)")]},
]

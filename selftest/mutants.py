"""Realistic source mutations each check must catch (DESIGN.md section 4, 'M' lists).

Each entry: id, props (checks expected to exit 1), what, edits [(file, old, new)].
Every mutant keeps the 103 stable tests green (they never reach this code, see DESIGN 1).
"""

PI = 'elfi/methods/inference/parameter_inference.py'
SA = 'elfi/methods/inference/samplers.py'
CL = 'elfi/client.py'

MUTANTS = [
    # ---------------- C04
    {'id': 'c04-no-rewind', 'props': ['C04'], 'what': 'cancel_pending does not rewind the next index',
     'edits': [(CL, "            self._next_batch_index = batch_index\n\n    def reset",
                "            pass\n\n    def reset")]},
    {'id': 'c04-smc-no-cancel', 'props': ['C04'], 'what': 'SMC does not cancel speculative batches at a round end',
     'edits': [(SA, "        if self._rejection.finished:\n            self.batches.cancel_pending()\n",
                "        if self._rejection.finished:\n")]},
    {'id': 'c04-smc-stale-round-rng', 'props': ['C04'], 'what': 'SMC keeps the previous round proposal generator',
     'edits': [(SA, "        self._round_random_state = np.random.RandomState(seed)\n",
                "        if self._round_random_state is None:\n            self._round_random_state = np.random.RandomState(seed)\n")]},
    {'id': 'c04-ignore-mpb', 'props': ['C04'], 'what': '_allow_submit ignores max_parallel_batches',
     'edits': [(PI, "        return (self.max_parallel_batches > self.batches.num_pending\n                and",
                "        return (self.max_parallel_batches + 1 > self.batches.num_pending\n                and")]},
    {'id': 'c04-wait-newest', 'props': ['C04'], 'what': 'wait_next pops the newest pending batch',
     'edits': [(CL, "self._pending_batches.popitem(last=False)", "self._pending_batches.popitem(last=True)")]},
    {'id': 'c04-objective-pending', 'props': ['C04'], 'what': 'Rejection objective estimate reads batches.num_pending',
     'edits': [(SA, "            n_batches = self.objective['n_batches'] + 1\n",
                "            n_batches = self.objective['n_batches'] + 1 + self.batches.num_pending\n")]},
    {'id': 'c04-global-rng-proposal', 'props': ['C04'], 'what': 'SMC proposals drawn from np.random instead of the round generator',
     'edits': [(SA, "                                    random_state=self._round_random_state)",
                "                                    random_state=None)")]},
    {'id': 'c04-no-final-cancel', 'props': ['C04'], 'what': 'infer() does not cancel pending batches at the end',
     'edits': [(PI, "        self.batches.cancel_pending()\n        if vis:", "        if vis:")]},
]

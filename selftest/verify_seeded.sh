#!/bin/bash
# verify_seeded.sh <PID> <worktree> : confirm a sub-agent's breaking change independently.
#  demo passes without / fails with the change; unedited suite keeps the 103 stable tests green.
PID=$1; WT=$2; DEMO=${3:-demo_$PID.py}
cd $WT || exit 2
export OMP_NUM_THREADS=1 OPENBLAS_NUM_THREADS=1 MKL_NUM_THREADS=1
[ -s patch.diff ] || { echo "no patch.diff"; exit 2; }
git checkout -- elfi
/venv/bin/python -c "import elfi,sys; sys.exit(0 if elfi.__file__.startswith('$WT') else 1)" || { echo "wrong elfi"; exit 2; }
timeout 1200 /venv/bin/python $DEMO > /tmp/${PID}_demo_clean.log 2>&1; rc_clean=$?
git apply patch.diff || { echo "patch does not apply"; exit 2; }
timeout 1200 /venv/bin/python $DEMO > /tmp/${PID}_demo_patched.log 2>&1; rc_patched=$?
echo "demo clean exit=$rc_clean patched exit=$rc_patched"
timeout 3000 /venv/bin/python -m pytest -q -p no:cacheprovider --timeout=900 --continue-on-collection-errors --junitxml=/tmp/${PID}_verify_junit.xml > /tmp/${PID}_verify_suite.log 2>&1
tail -1 /tmp/${PID}_verify_suite.log
/venv/bin/python /verif/selftest/cmp_suite.py /tmp/${PID}_verify_junit.xml
rm -f bdm elfi/examples/cpp/bdm; rm -rf pools

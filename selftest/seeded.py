#!/venv/bin/python
"""Run the checks against the independently seeded breaking changes in /verif/seeded/<id>/.

Each change is applied (patch -p1) to a scratch copy of /repo's working tree outside /repo and
/verif; the check named in meta.json must exit 1.  Nothing is ever applied to /repo itself.

    seeded.py list | run <id> [--scale S] | all [--scale S]
"""
import argparse
import json
import os
import shutil
import subprocess
import sys
import tempfile
import time

HERE = os.path.dirname(os.path.abspath(__file__))
VERIF = os.path.dirname(HERE)
SEEDED = os.path.join(VERIF, 'seeded')


def entries():
    out = []
    for d in sorted(os.listdir(SEEDED)):
        m = os.path.join(SEEDED, d, 'meta.json')
        if os.path.exists(m):
            meta = json.load(open(m))
            meta['dir'] = os.path.join(SEEDED, d)
            meta['id'] = d
            out.append(meta)
    return out


def run_one(meta, scale, tier='quick', quiet=True):
    d = tempfile.mkdtemp(prefix='verif-seeded-')
    try:
        shutil.copytree('/repo/elfi', os.path.join(d, 'repo', 'elfi'),
                        ignore=shutil.ignore_patterns('__pycache__', '*.pyc', 'bdm', 'cpp'))
        p = subprocess.run(['patch', '-p1', '-s', '-i', os.path.join(meta['dir'], 'patch.diff')],
                           cwd=os.path.join(d, 'repo'), capture_output=True, text=True)
        if p.returncode != 0:
            return [{'prop': None, 'exit': 'patch-failed', 'msg': p.stdout[-400:] + p.stderr[-400:]}]
        env = dict(os.environ, VERIF_REPO=os.path.join(d, 'repo'), VERIF_OUT=os.path.join(d, 'out'),
                   VERIF_SCALE=str(meta.get('scale', scale)), VERIF_SHRINK='100')
        res = []
        for prop in meta['caught_by']:
            t0 = time.time()
            r = subprocess.run(['/venv/bin/python', os.path.join(VERIF, 'check.py'), prop, '--tier',
                                tier], env=env, capture_output=True, text=True, timeout=7200)
            sigs = [ln.strip() for ln in r.stdout.splitlines() if 'signature=' in ln]
            res.append({'prop': prop, 'exit': r.returncode, 'wall': round(time.time() - t0, 1),
                        'signatures': sigs[:3]})
            if not quiet:
                print(r.stdout[-1200:])
        return res
    finally:
        shutil.rmtree(d, ignore_errors=True)


def main():
    ap = argparse.ArgumentParser()
    ap.add_argument('cmd')
    ap.add_argument('sid', nargs='?')
    ap.add_argument('--scale', type=float, default=0.5)
    ap.add_argument('--tier', default='quick')
    ap.add_argument('--match', default=None, help='regex on the id (all: run a slice only)')
    a = ap.parse_args()
    es = entries()
    if a.match:
        import re
        es = [e for e in es if re.search(a.match, e['id'])] if a.cmd == 'all' else es
    if a.cmd == 'list':
        for e in es:
            print(e['id'], e['property'], e['caught_by'], '-', e.get('what', '')[:100])
        return 0
    if a.cmd == 'run':
        e = [x for x in es if x['id'] == a.sid][0]
        r = run_one(e, a.scale, a.tier, quiet=False)
        print(json.dumps(r, indent=1))
        return 0 if any(x['exit'] == 1 for x in r) else 1
    missed = []
    for e in es:
        r = run_one(e, a.scale, a.tier)
        ok = any(x['exit'] == 1 for x in r)
        print('%-28s %s %s' % (e['id'], 'CAUGHT' if ok else 'MISSED',
                               [(x['prop'], x['exit'], x.get('wall')) for x in r]), flush=True)
        if not ok:
            missed.append(e['id'])
    print('missed:', missed)
    return 1 if missed else 0


if __name__ == '__main__':
    sys.exit(main())

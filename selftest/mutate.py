#!/venv/bin/python
"""Sensitivity self-test: apply one source mutation to a scratch copy of /repo (outside /repo
and /verif), run the corresponding check against it (VERIF_REPO), expect exit 1, clean up.

    mutate.py list
    mutate.py run <mutant-id> [--scale 0.3] [--tier quick] [--keep]
    mutate.py all [--props C04,C01] [--scale 0.3]
"""
import argparse
import json
import os
import shutil
import subprocess
import sys
import tempfile
import time

HERE = os.path.dirname(os.path.abspath(__file__))
VERIF = os.path.dirname(HERE)
sys.path.insert(0, HERE)
from mutants import MUTANTS  # noqa: E402


def make_copy(repo='/repo'):
    d = tempfile.mkdtemp(prefix='verif-mut-')
    shutil.copytree(os.path.join(repo, 'elfi'), os.path.join(d, 'repo', 'elfi'),
                    ignore=shutil.ignore_patterns('__pycache__', '*.pyc', 'bdm', 'cpp'))
    return d


def apply(mut, root):
    for (rel, old, new) in mut['edits']:
        p = os.path.join(root, 'repo', rel)
        s = open(p).read()
        if s.count(old) != 1:
            raise SystemExit('mutant %s: pattern occurs %d times in %s' % (mut['id'], s.count(old),
                                                                           rel))
        open(p, 'w').write(s.replace(old, new))


def run_one(mut, scale, tier, keep=False, quiet=False, seed='0'):
    d = make_copy()
    try:
        apply(mut, d)
        envd = dict(os.environ, VERIF_REPO=os.path.join(d, 'repo'), VERIF_OUT=os.path.join(d, 'out'),
                    VERIF_SCALE=str(scale), VERIF_SEED=seed, VERIF_SHRINK='120')
        res = []
        for prop in mut['props']:
            t0 = time.time()
            p = subprocess.run(['/venv/bin/python', os.path.join(VERIF, 'check.py'), prop,
                                '--tier', tier], env=envd, capture_output=True, text=True,
                               timeout=3600)
            sigs = [ln.strip() for ln in p.stdout.splitlines() if 'signature=' in ln]
            res.append({'prop': prop, 'exit': p.returncode, 'wall': round(time.time() - t0, 1),
                        'signatures': sigs[:4]})
            if not quiet:
                print(p.stdout[-1500:])
                if p.returncode not in (0, 1):
                    print(p.stderr[-1500:])
        return res
    finally:
        if keep:
            print('kept', d)
        else:
            shutil.rmtree(d, ignore_errors=True)


def main():
    ap = argparse.ArgumentParser()
    ap.add_argument('cmd')
    ap.add_argument('mid', nargs='?')
    ap.add_argument('--scale', type=float, default=0.3)
    ap.add_argument('--tier', default='quick')
    ap.add_argument('--props')
    ap.add_argument('--keep', action='store_true')
    a = ap.parse_args()
    if a.cmd == 'list':
        for m in MUTANTS:
            print(m['id'], m['props'], '-', m['what'])
        return 0
    if a.cmd == 'run':
        m = [m for m in MUTANTS if m['id'] == a.mid][0]
        r = run_one(m, a.scale, a.tier, keep=a.keep)
        print(json.dumps(r, indent=1))
        return 0 if all(x['exit'] == 1 for x in r) else 1
    if a.cmd == 'all':
        props = set(a.props.split(',')) if a.props else None
        summary = []
        for m in MUTANTS:
            if props and not (props & set(m['props'])):
                continue
            r = run_one(m, a.scale, a.tier, quiet=True)
            caught = any(x['exit'] == 1 for x in r)
            summary.append({'id': m['id'], 'caught': caught, 'res': r})
            print('%-34s %s %s' % (m['id'], 'CAUGHT' if caught else 'MISSED',
                                   [(x['prop'], x['exit'], x['wall']) for x in r]), flush=True)
        missed = [s['id'] for s in summary if not s['caught']]
        print('missed:', missed)
        return 1 if missed else 0


if __name__ == '__main__':
    sys.exit(main())

#!/bin/bash
# process_seeded.sh <seeded-id> <PID> <worktree> [extra props to run]: verify independently, store, run the check(s)
ID=$1; PID=$2; WT=$3; shift 3
LOG=/tmp/process_$ID.log
{
echo "== verify $ID"
/verif/selftest/verify_seeded.sh $PID $WT
mkdir -p /verif/seeded/$ID
cp $WT/patch.diff /verif/seeded/$ID/patch.diff
cp $WT/demo_$PID.py /verif/seeded/$ID/ 2>/dev/null
[ -f /verif/seeded/$ID/meta.json ] || /venv/bin/python - $ID $PID "$@" <<'PY'
import json,sys
i,pid=sys.argv[1:3]; extra=sys.argv[3:]
json.dump({"property":pid,"caught_by":[pid]+extra,"what":"TODO","needs":"TODO",
 "origin":"independent sub-agent (round 13), given only the property text, the ideas already taken and a scratch worktree, told to aim for a rare corner and to prefer history or scheduling",
 "confirmed":"selftest/verify_seeded.sh: demo exits 0 without / non-zero with the change; unedited suite with the change: 103 passed = the 103 stable tests"},
 open('/verif/seeded/%s/meta.json'%i,'w'),indent=1)
PY
echo "== check $ID"
/venv/bin/python /verif/selftest/seeded.py run $ID --scale 0.5 2>&1 | grep -A40 '^\['
} > $LOG 2>&1

#!/venv/bin/python
"""cmp_suite.py <junit.xml>: compare the passed tests of a suite run with BASELINE.json's stable_pass."""
import json, sys
import xml.etree.ElementTree as ET
base = set(json.load(open('/root/.vp/BASELINE.json'))['stable_pass'])
passed = set()
for tc in ET.parse(sys.argv[1]).getroot().iter('testcase'):
    if not any(c.tag in ('failure', 'error', 'skipped') for c in tc):
        passed.add('%s::%s' % (tc.get('classname'), tc.get('name')))
lost = sorted(base - passed)
print('suite: passed=%d stable=%d stable-now-failing=%d' % (len(passed), len(base), len(lost)))
for t in lost:
    print('  LOST', t)
sys.exit(1 if lost else 0)
